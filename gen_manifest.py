#!/usr/bin/env python3
"""Generates /verif/MANIFEST.json from the table below (kept in one place so it stays valid)."""
import json
import os

ROOT = os.path.dirname(os.path.abspath(__file__))

ENV = "GOFLAGS=-mod=mod GOPROXY=off"

# property -> (level category, technique, level text, level note, design ref)
CHECKS = {
    "C17": ("exploration", "runtime monitor: reference oracle over PRNG layouts through the real limiter entry points; boundary range pairs exhaustively",
            "Every generated layout is pushed through the real GetCertificateBuildParamsInternal / AdaptCertificate / Range / Gap and the result is compared with an independent oracle (largest permitted block by brute force, kept events by filtering, gap by big-integer arithmetic). A refusal of the last-block limiter is accepted only for its documented reasons; a third of the size-limit cases ask the same flow object a second time after the events changed. Held on the executions explored, boundary endpoint pairs exhaustively.",
            "EstimatedSize is taken as the size notion (its monotonicity is checked); fake bridge querier/storage only feed data.", "DESIGN.md §4 C17"),
    "C18": ("exploration", "runtime monitor: integer reference vs Publish calls of the real notifier; small parameters exhaustively with prefix closure",
            "The real EpochNotifierPerBlock loop is run on every subset of the next blocks for all small (N,start,P) and on random large parameters; the sequence of Publish calls observed by a synchronous subscriber must equal an integer (float-free) reference, for every prefix of every sequence (which decides at which block each event was published). A second plane delivers through the real GenericSubscriberImpl to a subscriber that reads only after all blocks: every expected epoch must arrive exactly once (order not judged).",
            "Blocks strictly above StartingEpochBlock; fake block notifier feeds an unbuffered channel.", "DESIGN.md §4 C18"),
    "C19": ("exploration", "runtime monitor: bit-layout reference vs every consumer boundary (struct, commitments, protobuf request, prover request, optimistic commitment)",
            "Boundary triples exhaustively and millions of PRNG triples: Generate/Decode round trip against the contract bit layout, and the same value observed at the certificate struct, both commitment encodings, the protobuf SubmitCertificateRequest captured behind the real gRPC client, the prover request captured behind the real aggchain-proof client and the optimistic commitment input. Probe outside the canonical domain (mainnet bit with left-over rollup bits): wire message, prover request and commitment encoding must agree with each other.",
            "Canonical global indexes only; gRPC services are capturing fakes behind the real clients (verif-tag constructors).", "DESIGN.md §4 C19"),
}

CHECKS.update({
    "C04": ("exploration", "runtime monitor: differential oracle (long-lived store vs fresh store fed only the surviving blocks) over every exported query enumerated by reflection",
            "Random histories with repeated / nested reorgs per store kind (bridge, L1 info, injected GER); after the reorg (store not reopened), after the continuation fork and after a restart every exported query method, found by reflection and called with pooled arguments (incl. dropped block numbers, roots, GERs as look-up arguments), must answer exactly like a fresh node that only saw the surviving blocks. Two destructive-delete defects are listed as known findings and reported as KNOWN-FINDING.",
            "Proof / leaf look-up targets are roots recorded by the surviving history (rht is never pruned by design); Start, GetLastReorgEvent, GetContractDepositCount excluded by name.", "DESIGN.md §4 C04"),
    "C07": ("fault_enumeration", "runtime monitor: statement-level fault injection through a wrapping database/sql driver + exact table-content oracle against a fault-free twin; real driver retry monitor",
            "For each block the statements of its transaction (reads, writes, commit) are counted on a fault-free twin; each statement in turn (quick: sampled, thorough: all) fails, or the context is cancelled at that statement; after a failed call the complete table content must equal the content before the block, after the clean retry it must equal the twin's, for the whole remaining history, plus all queries incl. proofs at the end. The real sync.EVMDriver over the real processor must retry a failed block and never record a later block while it is missing. Three genuine defects were found and repaired (fix: commits).",
            "A fault = the statement returns an error without executing; a failing commit rolls back; process death / torn writes below SQLite are covered by the kill plane when strace is available.", "DESIGN.md §4 C07"),
    "C14": ("exploration", "runtime monitor: reflection over every exported data-query entry point while the store is halted; fingerprint oracle for 'does not advance'; differential oracle after the clearing reorg",
            "Histories are driven into the halted state by a deposit-count gap (bridge) or an announced root / leaf-count mismatch (L1 info). While halted every exported query (reflection; arguments that returned data before the halt) must return ErrInconsistentState and no data, ProcessBlock (with and without events) must refuse and store nothing, reorgs above the tip and a reorg that fails in storage must not clear the state, a reorg that removes blocks must clear it and the store must then equal a fresh store fed the surviving blocks.",
            "Entry point = exported method returning a value together with an error; lifecycle / configuration / collaborator methods exempt by name (listed in the evidence).", "DESIGN.md §4 C14"),
    "C20": ("exploration", "runtime monitor: independent recursive candidate search vs the real trace-to-claim extraction over generated call trees (small shapes exhaustively)",
            "Every ordered call-tree shape up to 4 (quick) / 5 (thorough) frames with every labelling {matching bridge call, bridge call with another index, other contract} x reverted y/n, plus PRNG trees (depth 6, both contract generations, asset/message, colliding low bits): the real setClaimCalldata must return an error and leave the claim untouched when no non-reverted bridge call carries the event's index, and otherwise record exactly the details of one such call.",
            "Domain: every call addressed to the bridge is a claim call; traces come from a fake debug_traceTransaction.", "DESIGN.md §4 C20"),
})

CHECKS.update({
    "C01": ("exploration", "runtime monitor: real bridge bytecode in an in-process EVM as oracle (root after every deposit, getLeafValue), reference frontier validated against it, synthetic pre-states for high indices",
            "Deposit sequences are executed by the real PolygonZkEVMBridgeV2 bytecode; its BridgeEvent logs are fed to the real processor under 6 block partitions x restart schedules and GetExitRootByIndex / GetRootByLER / GetBridges are compared with the contract's root after each deposit and its leaf values. Longer sequences and indices around every 2^k (k=7..31, via a pre-state of N constant leaves computed by the reference) are checked against the reference frontier, which the same run compares with the EVM on every low-index case. In a third of the restart-free runs blocks fail once at a random storage statement (fault-injecting driver) and are processed again.",
            "High indices are reached through synthetic pre-states (root row + the 32 path nodes), not by 2^k real appends; metadata comes from bridgeMessage.", "DESIGN.md §4 C01"),
    "C08": ("exploration", "runtime monitor: bottom-up recomputation with reference leaves for every (recorded root, present position) pair; sample re-verified by the L1 contract's verifyMerkleProof bytecode",
            "Stores built from random histories, also after reorgs with continuation forks, restarts and blocks that failed once (injected storage fault, incl. failing commit) and were retried: for every recorded root version and every position present under it the served proof must hash, with the reference leaf, to exactly that root (exit tree, L1 info tree, rollup exit tree), and GetLocalExitRoot must return the value last written as of that root. A sample of proofs is also verified by the real GlobalExitRootV2.verifyMerkleProof bytecode.",
            "All pairs are enumerated for the generated tree sizes (quick <= ~100 leaves); high-index proofs are covered in C01's pre-state campaign.", "DESIGN.md §4 C08"),
})

CHECKS.update({
    "C05": ("exploration", "runtime monitor: online order/content oracle on the blocks handed over by the real downloader/driver over a chain simulator; small static chains exhaustively; real L1 info syncer vs reference",
            "The real EVMDownloader.Download runs on every static chain of up to 6 (quick) / 8 (thorough) blocks x chunk size x finalized pointer (plus inconsistent log/header backends around the retry limit); the real downloader + real driver run on chains that grow and finalize between RPC calls with transient RPC errors, lagging header backends, transient processor errors and inconsistent backends; the real l1infotreesync syncer runs on the same simulator. Every block handed over must be the canonical block with exactly its watched logs in log order, strictly increasing, never past an undelivered event block; at quiescence every event block up to the tip was delivered exactly once, and the real store equals the reference. One genuine defect found and repaired.",
            "Finalized blocks are never reorged and all RPC backends agree on them; quiescence = consecutive head polls without other RPCs, with re-evaluation before an end-state verdict counts.", "DESIGN.md §4 C05"),
})

CHECKS.update({
    "C06": ("exploration", "runtime monitor: convergence oracle (real store == reference of the final canonical chain) over the real detector + syncer on a forking chain simulator; rewind-depth / no-spurious-rewind monitors on a recording store",
            "The real reorg detector (1 ms) and the real L1 info tree syncer (optionally with a second syncer sharing the detector) run over a chain simulator whose schedule forks above the finalized block at random RPC calls, stops / restarts the node at chosen RPC call indices (crash-point sweep) and forks while it is down; once the chain stops changing the real store must equal the reference of the final canonical chain and the last processed block must be on it. Behind a recording store, a fork that replaces processed blocks must produce a rewind that leaves nothing at or above the fork point recorded, and forks strictly above everything ever served to the node (or no fork) must produce no rewind. Hand-shake windows that RPC-aligned crash points cannot hit are driven through a per-incarnation view of the recording store: death inside processor.Reorg, death right after ProcessBlock returned, a store that takes 6 s while a fork is reported, a detector whose DELETE FROM tracked_block is slow while the driver re-tracks the new fork, new-fork blocks that cannot be applied while rows of the dropped fork remain; each followed by restart / further forks and the convergence oracle. A labelled campaign starts the detector concurrently with the syncer's constructor (cmd/run.go's order) on detector databases with and without thousands of tracked rows. Five genuine defects (subscribe before detector start; Start/Subscribe lock-order deadlock; re-tracked blocks wiped after a reorg acknowledgement, in two variants; driver retrying an unprocessable block without handling the pending reorg) found and repaired. A convergence failure carries a dump of the goroutines blocked in aggkit code and, with VERIF_LOG_ERRORS=1, the tail of the node's error log.",
            "Convergence is bounded progress (re-evaluated for up to 40 s after the chain stopped changing); finalized blocks are never reorged; the window between ReorgProcessed and removeTrackedBlockRange is not driven.", "DESIGN.md §4 C06"),
    "C16": ("exploration", "runtime monitor: per-X query oracle against the injected-and-not-removed set of the canonical L2 chain, real lastgersync (PP and FEP) over the chain simulator",
            "Real lastgersync.New with the real reorg detector in PP and FEP mode: GER insertions / removals / re-insertions (<= 1 per block), the tip advancing by up to 25 blocks between polls, restarts at random RPC call indices, forks (incl. a final fork that re-injects the last root), a lagging L1 info tree syncer and transient RPC errors; at quiescence GetFirstGERAfterL1InfoTreeIndex(X) is judged for every X: a returned root must be injected, not removed, with index >= X, and not-found is only allowed when no such root exists. Extra campaigns: forks that replace already served event-free blocks by blocks with events (PP), the chain growing between the FEP downloader's view calls, a final fork that re-injects the last root. Three genuine defects (PP downloader skipped blocks; PP downloader missed reorgs of event-free blocks; FEP downloader recorded state read at 'latest' under an older block) found and repaired; the GER-removal delete that a reorg does not undo is a known finding.",
            "'Whenever such a root exists' is judged with re-evaluation for up to 30 s while the chain keeps producing empty blocks; FEP mode has no removals.", "DESIGN.md §4 C16"),
})

CHECKS.update({
    "C11": ("exploration", "runtime monitor: real L1 contracts (GlobalExitRootV2, bridge, rollup-manager stand-in) in an in-process EVM as oracle for the store built by the real syncer; reference model validated against the EVM; simulator and processor levels for volume",
            "Level A: random interleavings of deposits with GER update and batch verifications (several per block, zero / unchanged exit roots) executed by the real contract bytecode and synced by the real l1infotreesync (downloader + driver + processor): l1InfoRootMap(n), getLeafValue, getRollupExitRoot and the per-rollup exit roots read from the contracts must equal what the node serves by index and by GER. Level A2 runs the real syncer over the chain simulator with ABI-encoded logs (several events per transaction, rollup ids up to 2^32-1), Level B feeds the real processor directly; both are judged by the reference model that Level A validates against the EVM in the same run.",
            "Exit roots never return to an earlier value (domain); in Level A no zero exit root after a non-zero one for the same rollup; the rollup manager stand-in's getRollupExitRoot is a verbatim copy of the real one.", "DESIGN.md §4 C11"),
})

CHECKS.update({
    "C12": ("exploration", "runtime monitor: real BridgeService handlers (gin test context) over the four real stores; reference proof verifier and covering-index oracle from a joint L1/L2 reference history",
            "Joint L1/L2 histories are loaded into the real L1/L2 bridge stores, L1 info store and injected-GER store; for every recorded bridge and every L1 info index whose exit roots cover it, /claim-proof must return proofs that hash the bridge leaf to the mainnet exit root (or to the local exit root and that to the rollup exit root) of that leaf; /l1-info-tree-index must never return a non-covering index (any refusal is accepted and counted); /injected-l1-info-leaf must return an injected leaf with index >= the one asked. In every second history an L1 reorg follows (both L1 stores rewound, the chain continues differently) and every proof / index look-up is repeated on the same service object.",
            "The stores are filled at processor level (C05/C11 cover the download path); proofs are verified by the reference verifier that C08 cross-checks against the contract's verifyMerkleProof.", "DESIGN.md §4 C12"),
})

CHECKS.update({
    "C15": ("exploration", "runtime monitor: every InjectGER judged at the moment it happens against the reference L1 history and the sender's authoritative set; bounded-progress monitor in oracle ticks; real oracle loop + real L1 info store",
            "The real aggoracle Start loop runs against a fake L1 client (finality answers from the schedule), the real L1 info store (fed at a scheduled pace: behind / level with / ahead of the finalized block, stalls and catch-ups) behind a recording wrapper, and a fake chain sender. Safety per injection: the root is the most recent reference root at or below a block that was an answer of the finality query and that the oracle queried in this tick, IsGERInjected(same) = false came immediately before, the L2 set does not have it. Progress (in ticks, error-free schedules): injections keep happening while finalized roots keep appearing, and the latest finalized root is on L2 within 8 ticks after everything stands still. Schedule variants: L1 blocks with two info-tree updates, and a quiet end phase whose first injection attempt fails (a failed injection must be tried again). One genuine defect (dead sticky target => starvation) found and repaired.",
            "'Keeps injecting' is restated as bounded progress in ticks; with injected dependency errors only the final clause is judged (errors may delay, not suppress).", "DESIGN.md §4 C15"),
})


CHECKS.update({
    "C02": ("exploration", "runtime monitor: model Agglayer evaluating its acceptance checks on every certificate received from the real AggSender, conservation / exactly-once oracle over the settled chain, bounded-progress monitor; small step sequences exhaustively",
            "The real AggSender (real storage, status checker, PP flow and aggchain-prover flow, queries, signer) runs tick by tick (real select arms, verif-tag step hooks) over real L2 bridge / L1 info stores against a model Agglayer that rejects like the real one and records every failed acceptance check (nothing undecided, height = settled+1, previous exit root, first block, replacement keeps first block). All step sequences of depth 3 (quick) / 5 (thorough) over {L2 events, epoch, status, advance, inError, failBefore, failAfter, settle} and PRNG walks x RetryCertAfterInError x MaxCertSize x flow. At every settlement the settled certificates must cover the processed blocks without gap or overlap and carry every bridge / claim exactly once in chain order; without faults 6 rounds of ticks must certify everything. One defect class (SendCertificate response lost, node keeps no record) is a known finding.",
            "Liveness restated as bounded progress in ticks; with a size limit progress is not judged (empty-prefix livelock is outside the statement); the model Agglayer is an executable reading of the Agglayer's documented checks.", "DESIGN.md §4 C02"),
    "C03": ("exploration", "runtime monitor: per-certificate content oracle in the model Agglayer (block range from the metadata vs the reference L2 history, field by field, exit root recomputed with the reference frontier)",
            "Every certificate received from the real AggSender (PP and aggchain-prover flow, with prover-shortened ranges, size limits, retries after InError) is compared with the reference L2 history for the block range its metadata names: bridge exits and imported exits equal the bridges / claims of exactly those blocks field by field and in chain order, metadata hashes, amounts and addresses unchanged, and appending the reference exit hashes to the tree with root prevLER gives newLER.",
            "Claims are generated against finalized L1 info leaves; unclaimable claims are C09's subject.", "DESIGN.md §4 C03"),
    "C09": ("exploration", "runtime monitor: every imported exit of every received certificate verified like the Agglayer would (reference Merkle verifier bottom-up to the named L1 info root, leaf count, finality)",
            "For every imported bridge exit of every certificate received by the model Agglayer: exit hash + proof reaches the mainnet exit root (or local exit root and from there the rollup exit root) of the enclosed L1 leaf, that leaf is the one the claim was made against, leaf + proof reaches the named L1 info root, all imported exits name the same root, l1_info_tree_leaf_count belongs to that root and the root is finalized on L1 (the reference L1 history knows finality).",
            "The reference verifier is the one C08 cross-checks against the L1 contract's verifyMerkleProof.", "DESIGN.md §4 C09"),
    "C10": ("exploration", "runtime monitor: commitment recomputed independently from the received certificate / from the protobuf message captured behind the real gRPC client / from the stored JSON, recording signer; single-field perturbation sweep",
            "Certificates built, signed, submitted and stored by the real flows (PP and aggchain-prover flow with a recording signer) in walks with failed submissions and InError retries: the hash handed to the signer equals the commitment recomputed from what was sent, the signature recovers to the signer over it, the wire message of the real gRPC client and the node's stored copy carry every covered field unchanged. PRNG certificates (0-20 exits, 0-10 imported exits, both claim kinds, nil amounts, empty metadata): wire / JSON comparison and a single-field perturbation of every covered field must change the commitment / identity that covers it. One long-lived real gRPC client is used per walk / worker with injected failed submissions in between (what a client sends must not depend on its earlier calls); an eighth of the mainnet global indexes carry left-over rollup bits.",
            "Commitment formulas are re-implemented from the interop specification (PP: new LER + global indexes; FEP: + imported exit hashes, height, aggchain params).", "DESIGN.md §4 C10"),
    "C13": ("fault_enumeration", "runtime monitor: process-death points and database loss injected into the real AggSender against the model Agglayer, post-restart reconciliation oracle; statement-level fault enumeration on the real certificate storage through a wrapping database/sql driver",
            "All sequences of depth 3 (quick) / 4 (thorough) over {L2 events, epoch, status, inError, settle, restart, death before submit / after the Agglayer recorded the certificate / at the next Agglayer call, database deleted} after three prefixes, PRNG walks (also: epoch tick with the k-th storage statement failing then restart, stale database copy, Agglayer forgets / re-identifies its last certificate) x retry x history x flow. After every restart without contradiction the node must not refuse and its last record must be the Agglayer's last certificate; the next certificate must pass the height / previous-root / first-block checks; constructed contradictions must be refused; never two rows per height; a failed write removes no record. Ticks during which the k-th storage statement of any kind (also plain reads) fails. Storage plane: every statement and the commit of every write transaction fails once (also by cancellation): failed => fingerprint unchanged, succeeded => complete new state. Two genuine defects found and repaired.",
            "Process death = abandoning the node's objects and rebuilding on the same files; start-up reconciliation gets 4 rounds of recovery queries.", "DESIGN.md §4 C13"),
})

# properties not (yet) claimed: reason
NOT_APPLICABLE = {
}

ALL = ["C%02d" % i for i in range(1, 21)]


def main():
    checks = []
    for pid in ALL:
        if pid not in CHECKS:
            continue
        cat, tech, text, note, ref = CHECKS[pid]
        checks.append({
            "property_id": pid,
            "quick_cmd": "%s ./check %s quick" % (ENV, pid),
            "thorough_cmd": "%s ./check %s thorough" % (ENV, pid),
            "evidence_file": "/verif/evidence/%s.json" % pid,
            "replay_cmd_template": "%s ./check %s --replay {path}" % (ENV, pid),
            "engine": "harness",
            "level_claimed": {"category": cat, "text": text, "design_ref": ref},
            "level_note": note,
            "technique": tech,
        })
    na = []
    for pid in ALL:
        if pid in CHECKS:
            continue
        na.append({"property_id": pid, "reason": NOT_APPLICABLE.get(pid, "check under construction in this round (runtime monitoring applies; see DESIGN.md §4) – not claimed until its monitor is silent on the unchanged tree")})
    m = {
        "version": 1,
        "setup_cmd": "%s ./check build" % ENV,
        "hooks": {
            "guard": "verif",
            "enable": "go build tag: every check compiles /repo with `-tags verif` (files */verif_hooks.go, all `//go:build verif`)",
            "baseline_off_cmd": "cd /repo && GOFLAGS=-mod=mod GOPROXY=off go test -vet=off -count=1 -timeout 25m ./...",
            "source_commits": json.load(open(os.path.join(ROOT, "hook_commits.json"))) if os.path.exists(os.path.join(ROOT, "hook_commits.json")) else [],
            "add_only": True,
        },
        "engines": [{
            "name": "harness",
            "path": "/verif/harness",
            "serves_properties": sorted(CHECKS.keys()),
            "kind_free_text": "Go test binary (module verifharness, replace aggkit => /repo, -tags verif) with boundary fakes, reference models and monitors; one process per property started by ./check",
        }],
        "checks": checks,
        "not_applicable": na,
        "notes": "Technique family: runtime monitoring. Every check builds the harness from /repo's working tree, runs the real code under generated / hostile workloads and decides with an oracle over what was observed. Exit 0 held / 1 VIOLATION / 2 inconclusive. Known findings: /verif/known_findings.json.",
    }
    with open(os.path.join(ROOT, "MANIFEST.json"), "w") as f:
        json.dump(m, f, indent=1)
        f.write("\n")


if __name__ == "__main__":
    main()
