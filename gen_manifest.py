#!/usr/bin/env python3
"""Generates /verif/MANIFEST.json from the table below (kept in one place so it stays valid)."""
import json
import os

ROOT = os.path.dirname(os.path.abspath(__file__))

ENV = "GOFLAGS=-mod=mod GOPROXY=off"

# property -> (level category, technique, level text, level note, design ref)
CHECKS = {
    "C17": ("exploration", "runtime monitor: reference oracle over PRNG layouts through the real limiter entry points; boundary range pairs exhaustively",
            "Every generated layout is pushed through the real GetCertificateBuildParamsInternal / AdaptCertificate / Range / Gap and the result is compared with an independent oracle (largest permitted block by brute force, kept events by filtering, gap by big-integer arithmetic). Held on the executions explored, boundary endpoint pairs exhaustively.",
            "EstimatedSize is taken as the size notion (its monotonicity is checked); fake bridge querier/storage only feed data.", "DESIGN.md §4 C17"),
    "C18": ("exploration", "runtime monitor: integer reference vs Publish calls of the real notifier; small parameters exhaustively with prefix closure",
            "The real EpochNotifierPerBlock loop is run on every subset of the next blocks for all small (N,start,P) and on random large parameters; the sequence of Publish calls observed by a synchronous subscriber must equal an integer (float-free) reference, for every prefix of every sequence (which decides at which block each event was published).",
            "Blocks strictly above StartingEpochBlock; fake block notifier feeds an unbuffered channel.", "DESIGN.md §4 C18"),
    "C19": ("exploration", "runtime monitor: bit-layout reference vs every consumer boundary (struct, commitments, protobuf request, prover request, optimistic commitment)",
            "Boundary triples exhaustively and millions of PRNG triples: Generate/Decode round trip against the contract bit layout, and the same value observed at the certificate struct, both commitment encodings, the protobuf SubmitCertificateRequest captured behind the real gRPC client, the prover request captured behind the real aggchain-proof client and the optimistic commitment input.",
            "Canonical global indexes only; gRPC services are capturing fakes behind the real clients (verif-tag constructors).", "DESIGN.md §4 C19"),
}

# properties not (yet) claimed: reason
NOT_APPLICABLE = {
}

ALL = ["C%02d" % i for i in range(1, 21)]


def main():
    checks = []
    for pid in ALL:
        if pid not in CHECKS:
            continue
        cat, tech, text, note, ref = CHECKS[pid]
        checks.append({
            "property_id": pid,
            "quick_cmd": "%s ./check %s quick" % (ENV, pid),
            "thorough_cmd": "%s ./check %s thorough" % (ENV, pid),
            "evidence_file": "/verif/evidence/%s.json" % pid,
            "replay_cmd_template": "%s ./check %s --replay {path}" % (ENV, pid),
            "engine": "harness",
            "level_claimed": {"category": cat, "text": text, "design_ref": ref},
            "level_note": note,
            "technique": tech,
        })
    na = []
    for pid in ALL:
        if pid in CHECKS:
            continue
        na.append({"property_id": pid, "reason": NOT_APPLICABLE.get(pid, "check under construction in this round (runtime monitoring applies; see DESIGN.md §4) – not claimed until its monitor is silent on the unchanged tree")})
    m = {
        "version": 1,
        "setup_cmd": "%s ./check build" % ENV,
        "hooks": {
            "guard": "verif",
            "enable": "go build tag: every check compiles /repo with `-tags verif` (files */verif_hooks.go, all `//go:build verif`)",
            "baseline_off_cmd": "cd /repo && GOFLAGS=-mod=mod GOPROXY=off go test -vet=off -count=1 -timeout 25m ./...",
            "source_commits": json.load(open(os.path.join(ROOT, "hook_commits.json"))) if os.path.exists(os.path.join(ROOT, "hook_commits.json")) else [],
            "add_only": True,
        },
        "engines": [{
            "name": "harness",
            "path": "/verif/harness",
            "serves_properties": sorted(CHECKS.keys()),
            "kind_free_text": "Go test binary (module verifharness, replace aggkit => /repo, -tags verif) with boundary fakes, reference models and monitors; one process per property started by ./check",
        }],
        "checks": checks,
        "not_applicable": na,
        "notes": "Technique family: runtime monitoring. Every check builds the harness from /repo's working tree, runs the real code under generated / hostile workloads and decides with an oracle over what was observed. Exit 0 held / 1 VIOLATION / 2 inconclusive. Known findings: /verif/known_findings.json.",
    }
    with open(os.path.join(ROOT, "MANIFEST.json"), "w") as f:
        json.dump(m, f, indent=1)
        f.write("\n")


if __name__ == "__main__":
    main()
