package evm

import (
	"math/big"

	"github.com/ethereum/go-ethereum"
	"github.com/ethereum/go-ethereum/common"
)

func filterQuery(from, to uint64, addrs []common.Address) ethereum.FilterQuery {
	return ethereum.FilterQuery{FromBlock: new(big.Int).SetUint64(from), ToBlock: new(big.Int).SetUint64(to), Addresses: addrs}
}
