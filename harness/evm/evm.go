// Package evm runs the real contract bytecode (bridge, L1 global exit root manager, a rollup
// manager stand-in whose getRollupExitRoot() is a verbatim copy of the real one) in go-ethereum's
// in-process simulated backend. It is the "what the contract computes" oracle and is used to
// validate the reference models of package ref in every run that relies on them.
package evm

import (
	"context"
	"fmt"
	"math/big"

	"github.com/0xPolygon/cdk-contracts-tooling/contracts/pp/l2-sovereign-chain/polygonzkevmbridgev2"
	"github.com/0xPolygon/cdk-contracts-tooling/contracts/pp/l2-sovereign-chain/polygonzkevmglobalexitrootv2"
	"github.com/agglayer/aggkit/test/contracts/transparentupgradableproxy"
	"github.com/agglayer/aggkit/test/contracts/verifybatchesmock"
	"github.com/ethereum/go-ethereum/accounts/abi/bind"
	"github.com/ethereum/go-ethereum/common"
	"github.com/ethereum/go-ethereum/core/types"
	"github.com/ethereum/go-ethereum/crypto"
	"github.com/ethereum/go-ethereum/ethclient/simulated"
)

const chainID = 1337

// L1 is a simulated L1 with bridge (network 0), GlobalExitRootV2 and a rollup manager stand-in
type L1 struct {
	Backend    *simulated.Backend
	Auth       *bind.TransactOpts
	nextNonce  uint64
	BridgeAddr common.Address
	Bridge     *polygonzkevmbridgev2.Polygonzkevmbridgev2
	GERAddr    common.Address
	GER        *polygonzkevmglobalexitrootv2.Polygonzkevmglobalexitrootv2
	RMAddr     common.Address
	RM         *verifybatchesmock.Verifybatchesmock
}

func deployBridge(auth *bind.TransactOpts, be *simulated.Backend, gerAddr common.Address, networkID uint32) (common.Address, *polygonzkevmbridgev2.Polygonzkevmbridgev2, error) {
	implAddr, _, _, err := polygonzkevmbridgev2.DeployPolygonzkevmbridgev2(auth, be.Client())
	if err != nil {
		return common.Address{}, nil, err
	}
	be.Commit()
	abi, err := polygonzkevmbridgev2.Polygonzkevmbridgev2MetaData.GetAbi()
	if err != nil {
		return common.Address{}, nil, err
	}
	init, err := abi.Pack("initialize", networkID, common.Address{}, uint32(0), gerAddr, common.Address{}, []byte{})
	if err != nil {
		return common.Address{}, nil, err
	}
	proxyAddr, _, _, err := transparentupgradableproxy.DeployTransparentupgradableproxy(auth, be.Client(), implAddr, common.HexToAddress("0xdead0001"), init)
	if err != nil {
		return common.Address{}, nil, err
	}
	be.Commit()
	c, err := polygonzkevmbridgev2.NewPolygonzkevmbridgev2(proxyAddr, be.Client())
	return proxyAddr, c, err
}

// NewL1 deploys the contracts. The GER manager's rollup manager is the VerifyBatchesMock.
func NewL1() (*L1, error) {
	key, err := crypto.GenerateKey()
	if err != nil {
		return nil, err
	}
	auth, err := bind.NewKeyedTransactorWithChainID(key, big.NewInt(chainID))
	if err != nil {
		return nil, err
	}
	bal := new(big.Int).Lsh(big.NewInt(1), 250)
	be := simulated.NewBackend(map[common.Address]types.Account{auth.From: {Balance: bal}}, simulated.WithBlockGasLimit(999999999999999999))
	be.Commit()
	nonce, err := be.Client().PendingNonceAt(context.Background(), auth.From)
	if err != nil {
		return nil, err
	}
	// deployments: bridge impl (nonce), proxy (nonce+1), GER (nonce+2), rollup manager mock (nonce+3)
	gerAddr := crypto.CreateAddress(auth.From, nonce+2)
	rmAddr := crypto.CreateAddress(auth.From, nonce+3)
	bridgeAddr, bridge, err := deployBridge(auth, be, gerAddr, 0)
	if err != nil {
		return nil, err
	}
	gAddr, _, ger, err := polygonzkevmglobalexitrootv2.DeployPolygonzkevmglobalexitrootv2(auth, be.Client(), rmAddr, bridgeAddr)
	if err != nil {
		return nil, err
	}
	be.Commit()
	if gAddr != gerAddr {
		return nil, fmt.Errorf("GER address %s != precalculated %s", gAddr, gerAddr)
	}
	rAddr, _, rm, err := verifybatchesmock.DeployVerifybatchesmock(auth, be.Client(), gerAddr)
	if err != nil {
		return nil, err
	}
	be.Commit()
	if rAddr != rmAddr {
		return nil, fmt.Errorf("rollup manager address %s != precalculated %s", rAddr, rmAddr)
	}
	l := &L1{Backend: be, Auth: auth, BridgeAddr: bridgeAddr, Bridge: bridge, GERAddr: gerAddr, GER: ger, RMAddr: rmAddr, RM: rm}
	// nonces are managed here: under load the simulated backend's tx pool can lag behind and
	// PendingNonceAt then hands out a nonce that is already taken ("replacement transaction underpriced")
	if l.nextNonce, err = be.Client().PendingNonceAt(context.Background(), auth.From); err != nil {
		return nil, err
	}
	return l, nil
}

func (l *L1) opts() *bind.TransactOpts {
	o := *l.Auth
	o.Nonce = new(big.Int).SetUint64(l.nextNonce)
	return &o
}

// Close releases the backend
func (l *L1) Close() { _ = l.Backend.Close() }

// Receipt returns the receipt of a mined transaction (fails if it reverted)
func (l *L1) Receipt(tx *types.Transaction) (*types.Receipt, error) {
	rc, err := l.Backend.Client().TransactionReceipt(context.Background(), tx.Hash())
	if err != nil {
		return nil, err
	}
	if rc.Status != types.ReceiptStatusSuccessful {
		return rc, fmt.Errorf("transaction reverted")
	}
	return rc, nil
}

// Deposit sends bridgeMessage (asMessage) or a native-token bridgeAsset. The transaction is only
// sent, not mined: call Commit to mine the pending ones into one block.
func (l *L1) Deposit(destNet uint32, destAddr common.Address, amount *big.Int, metadata []byte, asMessage, forceUpdateGER bool) (*types.Transaction, error) {
	opts := l.opts()
	opts.Value = amount
	opts.GasLimit = 3_000_000
	var tx *types.Transaction
	var err error
	if asMessage {
		tx, err = l.Bridge.BridgeMessage(opts, destNet, destAddr, forceUpdateGER, metadata)
	} else {
		tx, err = l.Bridge.BridgeAsset(opts, destNet, destAddr, amount, common.Address{}, forceUpdateGER, nil)
	}
	if err == nil {
		l.nextNonce++
	}
	return tx, err
}

// VerifyBatches calls the rollup manager stand-in
func (l *L1) VerifyBatches(rollupID uint32, batch uint64, exitRoot, stateRoot common.Hash, updateGER, trusted bool) (*types.Transaction, error) {
	opts := l.opts()
	opts.GasLimit = 8_000_000
	var tx *types.Transaction
	var err error
	if trusted {
		tx, err = l.RM.VerifyBatchesTrustedAggregator(opts, rollupID, batch, exitRoot, stateRoot, updateGER)
	} else {
		tx, err = l.RM.VerifyBatches(opts, rollupID, batch, exitRoot, stateRoot, updateGER)
	}
	if err == nil {
		l.nextNonce++
	}
	return tx, err
}

// Commit mines a block with the pending transactions and returns its header
func (l *L1) Commit() (*types.Header, error) {
	l.Backend.Commit()
	return l.Backend.Client().HeaderByNumber(context.Background(), nil)
}

// Logs returns all logs of a block range for the given addresses
func (l *L1) Logs(from, to uint64, addrs ...common.Address) ([]types.Log, error) {
	return l.Backend.Client().FilterLogs(context.Background(), filterQuery(from, to, addrs))
}
