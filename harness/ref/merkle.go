// Package ref contains reference models written from the contract / interop specifications,
// independent of the aggkit implementation (it imports none of its code). Every model is
// cross-validated against the real contract bytecode in the C01/C11 runs before being trusted.
package ref

import (
	"math/big"

	"github.com/ethereum/go-ethereum/common"
	"github.com/ethereum/go-ethereum/crypto"
)

const Depth = 32

type Hash = common.Hash

// H2 = keccak(a || b)
func H2(a, b Hash) Hash { return crypto.Keccak256Hash(a[:], b[:]) }

// Zero[i] is the root of an empty subtree of height i (Zero[0] = 0 leaf)
var Zero [Depth + 1]Hash

func init() {
	for i := 1; i <= Depth; i++ {
		Zero[i] = H2(Zero[i-1], Zero[i-1])
	}
}

// Frontier is DepositContractBase: _branch + depositCount, written from the Solidity.
type Frontier struct {
	Branch [Depth]Hash
	Count  uint64
}

// Add = DepositContractBase._addLeaf
func (f *Frontier) Add(leaf Hash) {
	node := leaf
	f.Count++
	size := f.Count
	for h := 0; h < Depth; h++ {
		if (size>>uint(h))&1 == 1 {
			f.Branch[h] = node
			return
		}
		node = H2(f.Branch[h], node)
	}
	panic("frontier full")
}

// Root = DepositContractBase.getRoot
func (f *Frontier) Root() Hash {
	var node Hash
	size := f.Count
	cur := Zero[0]
	for h := 0; h < Depth; h++ {
		if (size>>uint(h))&1 == 1 {
			node = H2(f.Branch[h], node)
		} else {
			node = H2(node, cur)
		}
		cur = H2(cur, cur)
	}
	return node
}

// Clone copies the frontier
func (f *Frontier) Clone() *Frontier { c := *f; return &c }

// ConstFrontier returns the frontier of a tree whose first n leaves all equal `leaf`, in O(32^2).
func ConstFrontier(leaf Hash, n uint64) *Frontier {
	// full[h] = root of a full subtree of height h made of `leaf`
	var full [Depth]Hash
	full[0] = leaf
	for h := 1; h < Depth; h++ {
		full[h] = H2(full[h-1], full[h-1])
	}
	f := &Frontier{Count: n}
	for h := 0; h < Depth; h++ {
		if (n>>uint(h))&1 == 1 {
			f.Branch[h] = full[h]
		}
	}
	return f
}

// VerifyProof recomputes the root from leaf, sibling path and index, bottom-up.
func VerifyProof(leaf Hash, proof [Depth]Hash, index uint32) Hash {
	node := leaf
	idx := uint64(index)
	for h := 0; h < Depth; h++ {
		if idx%2 == 1 {
			node = H2(proof[h], node)
		} else {
			node = H2(node, proof[h])
		}
		idx /= 2
	}
	return node
}

// SparseTree is a full sparse Merkle tree of depth 32 with persistent versions: every Set creates
// a new version; Root/Leaf/Proof can be asked for any version.
type SparseTree struct {
	// nodes[version] is copy-on-write through parent pointers: we keep per-version maps of the
	// path that changed and look older versions up through a chain. For the sizes used by the
	// checks (<= a few thousand updates) a simple persistent node store keyed by hash is enough:
	nodes map[Hash][2]Hash // hash -> (left,right)
	roots []Hash           // roots[v] root after v updates (roots[0] = empty)
}

func NewSparseTree() *SparseTree {
	return &SparseTree{nodes: map[Hash][2]Hash{}, roots: []Hash{Zero[Depth]}}
}

// Versions returns the number of updates applied
func (t *SparseTree) Versions() int { return len(t.roots) - 1 }

// RootAt returns the root after v updates
func (t *SparseTree) RootAt(v int) Hash { return t.roots[v] }

// Last returns the latest root
func (t *SparseTree) Last() Hash { return t.roots[len(t.roots)-1] }

func (t *SparseTree) children(node Hash, height int) (Hash, Hash) {
	if node == Zero[height] {
		return Zero[height-1], Zero[height-1]
	}
	c, ok := t.nodes[node]
	if !ok {
		panic("ref.SparseTree: unknown node")
	}
	return c[0], c[1]
}

// pathFrom returns leaf and siblings of index under root
func (t *SparseTree) pathFrom(root Hash, index uint32) (Hash, [Depth]Hash) {
	var sib [Depth]Hash
	node := root
	for h := Depth; h >= 1; h-- {
		l, r := t.children(node, h)
		if (index>>uint(h-1))&1 == 1 {
			sib[h-1] = l
			node = r
		} else {
			sib[h-1] = r
			node = l
		}
	}
	return node, sib
}

// Set writes leaf at index on top of the latest version and returns the new root
func (t *SparseTree) Set(index uint32, leaf Hash) Hash {
	_, sib := t.pathFrom(t.Last(), index)
	node := leaf
	for h := 0; h < Depth; h++ {
		var l, r Hash
		if (index>>uint(h))&1 == 1 {
			l, r = sib[h], node
		} else {
			l, r = node, sib[h]
		}
		node = H2(l, r)
		t.nodes[node] = [2]Hash{l, r}
	}
	t.roots = append(t.roots, node)
	return node
}

// Truncate drops every version after v
func (t *SparseTree) Truncate(v int) { t.roots = t.roots[:v+1] }

// LeafAt returns the leaf at index as of version v
func (t *SparseTree) LeafAt(v int, index uint32) Hash {
	l, _ := t.pathFrom(t.roots[v], index)
	return l
}

// ProofAt returns the sibling path for index as of version v
func (t *SparseTree) ProofAt(v int, index uint32) [Depth]Hash {
	_, s := t.pathFrom(t.roots[v], index)
	return s
}

// ---- leaf values ----------------------------------------------------------------------------

func u32be(v uint32) []byte { return []byte{byte(v >> 24), byte(v >> 16), byte(v >> 8), byte(v)} }
func u64be(v uint64) []byte {
	return []byte{byte(v >> 56), byte(v >> 48), byte(v >> 40), byte(v >> 32), byte(v >> 24), byte(v >> 16), byte(v >> 8), byte(v)}
}

// BridgeLeaf = PolygonZkEVMBridgeV2.getLeafValue(leafType, originNetwork, originAddress,
// destinationNetwork, destinationAddress, amount, keccak256(metadata)) (abi.encodePacked)
func BridgeLeaf(leafType uint8, originNetwork uint32, originAddress common.Address,
	destinationNetwork uint32, destinationAddress common.Address, amount *big.Int, metadata []byte) Hash {
	var amt [32]byte
	if amount != nil {
		amount.FillBytes(amt[:])
	}
	mh := crypto.Keccak256(metadata)
	return crypto.Keccak256Hash(
		[]byte{leafType}, u32be(originNetwork), originAddress[:], u32be(destinationNetwork),
		destinationAddress[:], amt[:], mh)
}

// GER = keccak(mainnetExitRoot || rollupExitRoot)
func GER(mer, rer Hash) Hash { return crypto.Keccak256Hash(mer[:], rer[:]) }

// L1InfoLeaf = PolygonZkEVMGlobalExitRootV2.getLeafValue(ger, lastBlockHash, timestamp)
// = keccak(abi.encodePacked(bytes32, bytes32(blockhash), uint64 timestamp))
func L1InfoLeaf(ger, parentHash Hash, timestamp uint64) Hash {
	return crypto.Keccak256Hash(ger[:], parentHash[:], u64be(timestamp))
}

// GlobalIndex = mainnetFlag<<64 | rollupIndex<<32 | leafIndex (bridge contract bit layout);
// rollupIndex is 0 for mainnet.
func GlobalIndex(mainnet bool, rollupIndex, leafIndex uint32) *big.Int {
	v := new(big.Int)
	if mainnet {
		v.SetBit(v, 64, 1)
	} else {
		v.Or(v, new(big.Int).Lsh(new(big.Int).SetUint64(uint64(rollupIndex)), 32))
	}
	v.Or(v, new(big.Int).SetUint64(uint64(leafIndex)))
	return v
}

// SplitGlobalIndex decomposes a canonical global index per the contract's layout
func SplitGlobalIndex(v *big.Int) (mainnet bool, rollupIndex, leafIndex uint32) {
	mainnet = v.Bit(64) == 1
	lo := new(big.Int).And(v, new(big.Int).SetUint64(^uint64(0))).Uint64()
	leafIndex = uint32(lo)
	rollupIndex = uint32(lo >> 32)
	return
}
