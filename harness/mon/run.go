// Package mon holds the verdict/evidence machinery shared by every check:
// evaluation + coverage-signature counting, sample recording, violation reporting with replay
// files, the committed known-findings list, and the three-valued verdict
// (violated / held on what was observed / inconclusive).
package mon

import (
	"encoding/json"
	"fmt"
	"os"
	"path/filepath"
	"regexp"
	"sort"
	"strconv"
	"strings"
	"sync"
	"time"
)

// Root returns the directory of the verification framework (default /verif).
func Root() string {
	if r := os.Getenv("VERIF_ROOT"); r != "" {
		return r
	}
	return "/verif"
}

// Finding is one entry of known_findings.json
type Finding struct {
	Property  string `json:"property"`
	Signature string `json:"signature"`
	Status    string `json:"status"` // "known" | "fixed"
	Commit    string `json:"commit,omitempty"`
	What      string `json:"what"`
}

// Violation is a recorded violation
type Violation struct {
	Signature string `json:"signature"`
	What      string `json:"what"`
	Case      string `json:"case"`
	Replay    string `json:"replay"`
	Known     bool   `json:"known"`
}

// Run is the state of one check run
type Run struct {
	Prop  string
	Tier  string
	Seed  int64
	Level string

	start       time.Time
	mu          sync.Mutex
	evals       int
	bySig       map[string]int
	samples     []any
	maxSamples  int
	extra       map[string]any
	violations  []Violation
	knownSeen   map[string]int
	known       map[string]Finding
	rule        string
	assumptions []string
	inconcl     []string
	replayCase  string
	exhaustive  *bool
	finished    bool
	shardK, shardN int
}

var sigClean = regexp.MustCompile(`[^A-Za-z0-9_.-]+`)

// Start creates the run state for property prop. Tier comes from VERIF_TIER (quick|thorough,
// default quick), seed from VERIF_SEED (default 1).
func Start(prop, level string) *Run {
	tier := os.Getenv("VERIF_TIER")
	if tier != "thorough" {
		tier = "quick"
	}
	seed := int64(1)
	if s := os.Getenv("VERIF_SEED"); s != "" {
		if v, err := strconv.ParseInt(s, 10, 64); err == nil {
			seed = v
		}
	}
	r := &Run{
		Prop: prop, Tier: tier, Seed: seed, Level: level,
		start:      time.Now(),
		bySig:      map[string]int{},
		maxSamples: 6,
		extra:      map[string]any{},
		knownSeen:  map[string]int{},
		known:      map[string]Finding{},
	}
	// sharding (./check splits the thorough tier of the free-running checks over several processes:
	// each process runs the cases whose id hashes to its shard and ./check merges the evidence)
	if sh := os.Getenv("VERIF_SHARD"); sh != "" {
		var k, n int
		if _, err := fmt.Sscanf(sh, "%d/%d", &k, &n); err == nil && n > 1 && k >= 0 && k < n {
			r.shardK, r.shardN = k, n
			r.extra["shard"] = sh
		}
	}
	// summary of the race-detector pass that ./check ran before this one (thorough tier)
	if rp := os.Getenv("VERIF_RACE_PASS"); rp != "" {
		var v any
		if json.Unmarshal([]byte(rp), &v) == nil {
			r.extra["race_detector_pass"] = v
		}
	}
	// known findings (committed file, never written at run time)
	if b, err := os.ReadFile(filepath.Join(Root(), "known_findings.json")); err == nil {
		var fs []Finding
		if err := json.Unmarshal(b, &fs); err == nil {
			for _, f := range fs {
				if f.Property == prop && f.Status == "known" {
					r.known[f.Signature] = f
				}
			}
		}
	}
	if p := os.Getenv("VERIF_REPLAY"); p != "" {
		if b, err := os.ReadFile(p); err == nil {
			var rf struct {
				Case string `json:"case"`
				Seed int64  `json:"seed"`
				Tier string `json:"tier"`
			}
			if json.Unmarshal(b, &rf) == nil {
				r.replayCase = rf.Case
				r.Seed = rf.Seed
				if rf.Tier == "thorough" || rf.Tier == "quick" {
					r.Tier = rf.Tier
				}
			}
		}
	}
	return r
}

// Quick reports whether this is the quick tier
func (r *Run) Quick() bool { return r.Tier == "quick" }

// N returns q in quick tier and t in thorough tier
func (r *Run) N(q, t int) int {
	if r.Quick() {
		return q
	}
	return t
}

// Replaying reports whether a replay file restricts the run to one case
func (r *Run) Replaying() bool { return r.replayCase != "" }

// Only reports whether the case with the given id should be executed (always true unless
// a replay file restricts the run to a single case id; a case id may be a prefix family "a/b").
func (r *Run) Only(caseID string) bool {
	if r.replayCase == "" {
		if r.shardN > 1 {
			h := uint32(2166136261)
			for i := 0; i < len(caseID); i++ {
				h ^= uint32(caseID[i])
				h *= 16777619
			}
			return int(h%uint32(r.shardN)) == r.shardK
		}
		return true
	}
	return caseID == r.replayCase || strings.HasPrefix(r.replayCase, caseID+"/") ||
		strings.HasPrefix(caseID, r.replayCase+"/")
}

// Rule sets the generation / distinctness rule text of the evidence
func (r *Run) Rule(s string) { r.rule = s }

// Assume records an assumption of the check
func (r *Run) Assume(s ...string) { r.assumptions = append(r.assumptions, s...) }

// Exhaustive marks the run (or its main campaign) as a complete enumeration
func (r *Run) Exhaustive(b bool) { r.exhaustive = &b }

// Eval counts one evaluated case with its coverage signature (non-trivial cases only;
// pass "" for a trivial case: it is counted as an evaluation but not as coverage).
func (r *Run) Eval(sig string) {
	r.mu.Lock()
	r.evals++
	if sig != "" {
		r.bySig[sig]++
	}
	r.mu.Unlock()
}

// EvalN counts n evaluations with one signature
func (r *Run) EvalN(sig string, n int) {
	r.mu.Lock()
	r.evals += n
	if sig != "" {
		r.bySig[sig] += n
	}
	r.mu.Unlock()
}

// Cover adds a coverage signature without counting an evaluation
func (r *Run) Cover(sig string) {
	r.mu.Lock()
	r.bySig[sig]++
	r.mu.Unlock()
}

// Covered reports how often a signature was reached
func (r *Run) Covered(sig string) int {
	r.mu.Lock()
	defer r.mu.Unlock()
	return r.bySig[sig]
}

// CoveredPrefix counts the evaluations of every signature with the given prefix
func (r *Run) CoveredPrefix(prefix string) int {
	r.mu.Lock()
	defer r.mu.Unlock()
	n := 0
	for k, v := range r.bySig {
		if strings.HasPrefix(k, prefix) {
			n += v
		}
	}
	return n
}

// Sample records a concrete explored case (only the first few are kept)
func (r *Run) Sample(v any) {
	r.mu.Lock()
	defer r.mu.Unlock()
	if len(r.samples) >= r.maxSamples {
		return
	}
	// evidence files must stay small: a sample is kept as rendered JSON, clipped
	b, err := json.Marshal(v)
	if err != nil {
		b = []byte(fmt.Sprintf("%q", fmt.Sprintf("%+v", v)))
	}
	if len(b) > 4000 {
		r.samples = append(r.samples, map[string]any{"clipped_json": string(b[:4000]) + "…"})
		return
	}
	r.samples = append(r.samples, json.RawMessage(b))
}

// Set stores an extra coverage key
func (r *Run) Set(key string, v any) {
	r.mu.Lock()
	r.extra[key] = v
	r.mu.Unlock()
}

// Add adds n to an integer extra coverage key
func (r *Run) Add(key string, n int) {
	r.mu.Lock()
	cur, _ := r.extra[key].(int)
	r.extra[key] = cur + n
	r.mu.Unlock()
}

// Get returns an integer extra coverage key
func (r *Run) Get(key string) int {
	r.mu.Lock()
	defer r.mu.Unlock()
	cur, _ := r.extra[key].(int)
	return cur
}

// Inconclusive records a reason why the run cannot give a verdict
func (r *Run) Inconclusive(reason string) {
	r.mu.Lock()
	defer r.mu.Unlock()
	for _, x := range r.inconcl {
		if x == reason {
			return
		}
	}
	r.inconcl = append(r.inconcl, reason)
}

// Violations returns the number of (not known) violations recorded so far
func (r *Run) Violations() int {
	r.mu.Lock()
	defer r.mu.Unlock()
	n := 0
	for _, v := range r.violations {
		if !v.Known {
			n++
		}
	}
	return n
}

// Violation records a violation. signature identifies the failure mode and call site (it is
// what known_findings.json lists); caseID identifies the generated case for --replay; scenario
// is written into the replay file. At most a few replay files per signature are written.
func (r *Run) Violation(signature, caseID, what string, scenario any) {
	r.mu.Lock()
	defer r.mu.Unlock()
	// a plane borrowed from another property's check reports under the property that is running
	if len(signature) > 4 && signature[0] == 'C' && signature[3] == ':' && signature[:3] != r.Prop {
		signature = r.Prop + ":" + signature[4:] + ":(plane-of-" + signature[:3] + ")"
	}
	if len(what) > 3000 {
		what = what[:3000] + "…"
	}
	if k, ok := r.matchKnown(signature); ok {
		r.knownSeen[k]++
		if r.knownSeen[k] == 1 {
			r.violations = append(r.violations, Violation{Signature: k, What: what, Case: caseID, Known: true})
		}
		return
	}
	cnt := 0
	for _, v := range r.violations {
		if v.Signature == signature && !v.Known {
			cnt++
		}
	}
	if cnt >= 3 {
		// keep counting but do not flood
		r.extra["violations_suppressed"] = asInt(r.extra["violations_suppressed"]) + 1
		return
	}
	dir := filepath.Join(Root(), "replays")
	_ = os.MkdirAll(dir, 0o755)
	name := fmt.Sprintf("%s-%s-%d-%d.json", r.Prop, sigClean.ReplaceAllString(signature, "_"), r.Seed, cnt)
	path := filepath.Join(dir, name)
	body := map[string]any{
		"property":  r.Prop,
		"tier":      r.Tier,
		"seed":      r.Seed,
		"case":      caseID,
		"signature": signature,
		"what":      what,
		"scenario":  scenario,
	}
	b, err := json.MarshalIndent(body, "", " ")
	if err != nil {
		b, _ = json.MarshalIndent(map[string]any{"property": r.Prop, "tier": r.Tier, "seed": r.Seed,
			"case": caseID, "signature": signature, "what": what, "scenario": fmt.Sprintf("%+v", scenario)}, "", " ")
	}
	_ = os.WriteFile(path, b, 0o644)
	r.violations = append(r.violations, Violation{Signature: signature, What: what, Case: caseID, Replay: path})
	fmt.Printf("VIOLATION property=%s replay=%s\n", r.Prop, path)
	fmt.Printf("  signature=%s case=%s\n  %s\n", signature, caseID, what)
}

// matchKnown finds the known-finding entry for a violation signature. An entry's signature may
// contain '*' wildcards (each matches any run of characters); everything else is literal.
func (r *Run) matchKnown(signature string) (string, bool) {
	if _, ok := r.known[signature]; ok {
		return signature, true
	}
	for k := range r.known {
		if strings.Contains(k, "*") && globMatch(k, signature) {
			return k, true
		}
	}
	return "", false
}

func globMatch(pattern, s string) bool {
	parts := strings.Split(pattern, "*")
	if !strings.HasPrefix(s, parts[0]) {
		return false
	}
	s = s[len(parts[0]):]
	for i := 1; i < len(parts); i++ {
		p := parts[i]
		if i == len(parts)-1 {
			return strings.HasSuffix(s, p)
		}
		k := strings.Index(s, p)
		if k < 0 {
			return false
		}
		s = s[k+len(p):]
	}
	return true
}

func asInt(v any) int {
	i, _ := v.(int)
	return i
}

// Finish writes the evidence file and prints the verdict lines. minDistinct is the minimum
// number of distinct non-trivial coverage signatures the tier promises; required lists
// signatures (or prefixes ending in '*') that must have been reached. Returns the exit status
// the process should use: 0 held, 1 violated, 2 inconclusive.
func (r *Run) Finish(minDistinct int, required ...string) int {
	r.mu.Lock()
	defer r.mu.Unlock()
	if r.finished {
		return 0
	}
	r.finished = true
	distinct := len(r.bySig)
	if r.shardN > 1 {
		// the coverage promises are checked by ./check on the merged evidence of all shards
		r.extra["_min_distinct"] = minDistinct
		r.extra["_required"] = required
	}
	if r.replayCase == "" && r.shardN <= 1 {
		if distinct < minDistinct {
			r.inconcl = append(r.inconcl, fmt.Sprintf("only %d distinct non-trivial cases observed, tier promises >= %d", distinct, minDistinct))
		}
		for _, req := range required {
			found := false
			if strings.HasSuffix(req, "*") {
				p := strings.TrimSuffix(req, "*")
				for k := range r.bySig {
					if strings.HasPrefix(k, p) {
						found = true
						break
					}
				}
			} else {
				_, found = r.bySig[req]
			}
			if !found {
				r.inconcl = append(r.inconcl, "required coverage never reached: "+req)
			}
		}
		if r.evals == 0 {
			r.inconcl = append(r.inconcl, "no evaluation was made")
		}
	}
	nviol := 0
	for _, v := range r.violations {
		if v.Known {
			f := r.known[v.Signature]
			fmt.Printf("KNOWN-FINDING: property=%s %s [%s] (seen %d times; first: %s)\n", r.Prop, f.What, v.Signature, r.knownSeen[v.Signature], v.What)
		} else {
			nviol++
		}
	}
	nviol += asInt(r.extra["violations_suppressed"])

	cov := map[string]any{}
	for k, v := range r.extra {
		cov[k] = v
	}
	cov["evaluations"] = r.evals
	cov["distinct_nontrivial"] = distinct
	cov["rule"] = r.rule
	samples := r.samples
	if len(samples) == 0 {
		samples = []any{}
	}
	cov["samples"] = samples
	// by_signature: keep the file readable – at most 400 entries, sorted
	keys := make([]string, 0, len(r.bySig))
	for k := range r.bySig {
		keys = append(keys, k)
	}
	sort.Strings(keys)
	bs := map[string]int{}
	for i, k := range keys {
		if i >= 400 {
			break
		}
		bs[k] = r.bySig[k]
	}
	cov["by_signature"] = bs
	if r.exhaustive != nil {
		cov["exhaustive"] = *r.exhaustive
	}
	if len(r.inconcl) > 0 {
		cov["inconclusive"] = r.inconcl
	}
	kf := []string{}
	for s, n := range r.knownSeen {
		kf = append(kf, fmt.Sprintf("%s x%d", s, n))
	}
	sort.Strings(kf)
	if len(kf) > 0 {
		cov["known_findings_observed"] = kf
	}
	vl := []Violation{}
	for _, v := range r.violations {
		if !v.Known {
			vl = append(vl, v)
		}
	}
	if len(vl) > 0 {
		cov["violation_list"] = vl
	}
	ev := map[string]any{
		"property_id": r.Prop,
		"tier":        r.Tier,
		"seed":        r.Seed,
		"level":       r.Level,
		"coverage":    cov,
		"assumptions": r.assumptions,
		"wall_s":      time.Since(r.start).Seconds(),
		"violations":  nviol,
	}
	if r.replayCase == "" {
		dir := filepath.Join(Root(), "evidence")
		_ = os.MkdirAll(dir, 0o755)
		b, err := json.MarshalIndent(ev, "", " ")
		if err != nil {
			fmt.Printf("INCONCLUSIVE property=%s reason=cannot marshal evidence: %v\n", r.Prop, err)
			return 2
		}
		if err := os.WriteFile(filepath.Join(dir, r.Prop+".json"), b, 0o644); err != nil {
			fmt.Printf("INCONCLUSIVE property=%s reason=cannot write evidence: %v\n", r.Prop, err)
			return 2
		}
	}
	fmt.Printf("SUMMARY property=%s tier=%s seed=%d evaluations=%d distinct_nontrivial=%d violations=%d known=%d wall_s=%.1f\n",
		r.Prop, r.Tier, r.Seed, r.evals, distinct, nviol, len(r.knownSeen), time.Since(r.start).Seconds())
	if nviol > 0 {
		return 1
	}
	if len(r.inconcl) > 0 {
		for _, s := range r.inconcl {
			fmt.Printf("INCONCLUSIVE property=%s reason=%s\n", r.Prop, s)
		}
		return 2
	}
	return 0
}
