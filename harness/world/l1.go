package world

import (
	"math/rand"

	"github.com/agglayer/aggkit/l1infotreesync"
	"github.com/agglayer/aggkit/lastgersync"
	aggsync "github.com/agglayer/aggkit/sync"
	"github.com/ethereum/go-ethereum/common"
	"verifharness/ref"
)

// L1Leaf is the reference view of one L1 info tree leaf
type L1Leaf struct {
	Index      uint32
	Block, Pos uint64
	MER, RER   common.Hash
	GER        common.Hash
	ParentHash common.Hash
	Timestamp  uint64
	Hash       common.Hash
	Root       common.Hash // L1 info root after this leaf
}

// RollupUpdate is the reference view of one effective rollup exit tree update
type RollupUpdate struct {
	Block, Pos uint64
	RollupID   uint32
	ExitRoot   common.Hash
	Root       common.Hash // rollup exit root after the update
	Version    int         // version in RefL1.RET after the update
}

// RefL1 is the reference model of what the L1 contracts hold, as far as the node mirrors it
type RefL1 struct {
	Leaves   []L1Leaf
	Frontier ref.Frontier
	RET      *ref.SparseTree
	Updates  []RollupUpdate
	Current  map[uint32]common.Hash // rollup id -> last non-zero exit root
}

func NewRefL1() *RefL1 {
	return &RefL1{RET: ref.NewSparseTree(), Current: map[uint32]common.Hash{}}
}

// ApplyBlock applies the events of a block to the reference model
func (r *RefL1) ApplyBlock(b aggsync.Block) {
	for _, e := range b.Events {
		ev := e.(l1infotreesync.Event)
		if u := ev.UpdateL1InfoTree; u != nil {
			ger := ref.GER(u.MainnetExitRoot, u.RollupExitRoot)
			h := ref.L1InfoLeaf(ger, u.ParentHash, u.Timestamp)
			r.Frontier.Add(h)
			r.Leaves = append(r.Leaves, L1Leaf{Index: uint32(len(r.Leaves)), Block: b.Num, Pos: u.BlockPosition,
				MER: u.MainnetExitRoot, RER: u.RollupExitRoot, GER: ger, ParentHash: u.ParentHash, Timestamp: u.Timestamp,
				Hash: h, Root: r.Frontier.Root()})
		}
		if v := ev.VerifyBatches; v != nil {
			if v.ExitRoot == (common.Hash{}) {
				continue
			}
			if cur, ok := r.Current[v.RollupID]; ok && cur == v.ExitRoot {
				continue
			}
			root := r.RET.Set(v.RollupID-1, v.ExitRoot)
			r.Current[v.RollupID] = v.ExitRoot
			r.Updates = append(r.Updates, RollupUpdate{Block: b.Num, Pos: v.BlockPosition, RollupID: v.RollupID,
				ExitRoot: v.ExitRoot, Root: root, Version: r.RET.Versions()})
		}
	}
}

// L1Opts tunes the L1 history generator
type L1Opts struct {
	StartBlock     uint64
	Blocks         int
	MaxEventsBlock int
	EmptyBlockPct  int
	GapPct         int
	Salt           uint64
	RollupIDs      []uint32
	V2             bool // emit (consistent) UpdateL1InfoTreeV2 announcements
	Init           bool // emit one InitL1InfoRootMap
}

// L1Gen incrementally generates a consistent L1 history and its reference
type L1Gen struct {
	G        *rand.Rand
	O        L1Opts
	Ref      *RefL1
	num      uint64
	started  bool
	initDone bool
	usedExit map[common.Hash]bool
	hadExit  map[uint32]map[common.Hash]bool // every exit root a rollup ever had (all forks)
}

func NewL1Gen(g *rand.Rand, o L1Opts) *L1Gen {
	if len(o.RollupIDs) == 0 {
		o.RollupIDs = []uint32{1, 2, 3, 7, 1 << 16, 1<<32 - 1}
	}
	return &L1Gen{G: g, O: o, Ref: NewRefL1(), num: o.StartBlock, usedExit: map[common.Hash]bool{}, hadExit: map[uint32]map[common.Hash]bool{}}
}

// ResetTo rewinds the generator's reference to the given (surviving) blocks and continues from
// block number next with a new fork salt
func (l *L1Gen) ResetTo(surviving []aggsync.Block, next uint64, salt uint64) {
	l.Ref = NewRefL1()
	l.initDone = false
	for _, b := range surviving {
		l.Ref.ApplyBlock(b)
		for _, e := range b.Events {
			if e.(l1infotreesync.Event).InitL1InfoRootMap != nil {
				l.initDone = true
			}
		}
	}
	l.num = next
	l.started = false
	l.O.Salt = salt
}

// Next generates the next block (and applies it to the reference)
func (l *L1Gen) Next() aggsync.Block {
	g := l.G
	if l.started {
		l.num++
		if g.Intn(100) < l.O.GapPct {
			l.num += uint64(1 + g.Intn(5))
		}
	}
	l.started = true
	b := aggsync.Block{Num: l.num, Hash: BlockHash(l.O.Salt, l.num)}
	parent := BlockHash(l.O.Salt, l.num-1)
	ts := 1_700_000_000 + l.num*12 + uint64(g.Intn(5))
	if g.Intn(100) >= l.O.EmptyBlockPct {
		n := 1 + g.Intn(max(l.O.MaxEventsBlock, 1))
		pos := uint64(g.Intn(3))
		// a private reference copy to compute V2 announcements inside the block
		fr := l.Ref.Frontier.Clone()
		cnt := len(l.Ref.Leaves)
		cur := map[uint32]common.Hash{}
		for k, v := range l.Ref.Current {
			cur[k] = v
		}
		for k := 0; k < n; k++ {
			kind := g.Intn(10)
			switch {
			case kind < 5:
				u := &l1infotreesync.UpdateL1InfoTree{BlockPosition: pos, MainnetExitRoot: RandHash(g), RollupExitRoot: RandHash(g),
					ParentHash: parent, Timestamp: ts}
				b.Events = append(b.Events, l1infotreesync.Event{UpdateL1InfoTree: u})
				fr.Add(ref.L1InfoLeaf(ref.GER(u.MainnetExitRoot, u.RollupExitRoot), parent, ts))
				cnt++
				if l.O.V2 && g.Intn(2) == 0 {
					pos++
					b.Events = append(b.Events, l1infotreesync.Event{UpdateL1InfoTreeV2: &l1infotreesync.UpdateL1InfoTreeV2{
						CurrentL1InfoRoot: fr.Root(), LeafCount: uint32(cnt), Blockhash: parent, MinTimestamp: ts}})
				}
			case kind < 9:
				id := l.O.RollupIDs[g.Intn(len(l.O.RollupIDs))]
				var exit common.Hash
				switch g.Intn(6) {
				case 0: // zero exit root
				case 1: // unchanged exit root (if any)
					exit = cur[id]
				case 2: // the exit root another rollup currently has (e.g. two rollups with identical exit
					// trees): identical leaves at different positions share content-addressed tree nodes.
					// Only if this rollup never had that value (an exit root cannot return to an earlier value)
					exit = RandHash(g)
					for _, other := range l.O.RollupIDs {
						if v, ok := cur[other]; ok && other != id && !l.hadExit[id][v] {
							exit = v
							break
						}
					}
				default:
					exit = RandHash(g)
				}
				if l.hadExit[id] == nil {
					l.hadExit[id] = map[common.Hash]bool{}
				}
				l.hadExit[id][exit] = true
				if exit != (common.Hash{}) {
					cur[id] = exit
				}
				b.Events = append(b.Events, l1infotreesync.Event{VerifyBatches: &l1infotreesync.VerifyBatches{
					BlockPosition: pos, RollupID: id, NumBatch: uint64(g.Intn(1000)), StateRoot: RandHash(g),
					ExitRoot: exit, Aggregator: RandAddr(g)}})
			default:
				if l.O.Init && !l.initDone {
					l.initDone = true
					b.Events = append(b.Events, l1infotreesync.Event{InitL1InfoRootMap: &l1infotreesync.InitL1InfoRootMap{
						LeafCount: uint32(cnt), CurrentL1InfoRoot: fr.Root()}})
				}
			}
			pos += uint64(1 + g.Intn(3))
		}
	}
	l.Ref.ApplyBlock(b)
	return b
}

// CloneL1Block deep-copies a block (processVerifyBatches mutates its event)
func CloneL1Block(b aggsync.Block) aggsync.Block {
	out := aggsync.Block{Num: b.Num, Hash: b.Hash}
	for _, e := range b.Events {
		ev := e.(l1infotreesync.Event)
		var c l1infotreesync.Event
		if ev.UpdateL1InfoTree != nil {
			x := *ev.UpdateL1InfoTree
			c.UpdateL1InfoTree = &x
		}
		if ev.UpdateL1InfoTreeV2 != nil {
			x := *ev.UpdateL1InfoTreeV2
			c.UpdateL1InfoTreeV2 = &x
		}
		if ev.VerifyBatches != nil {
			x := *ev.VerifyBatches
			c.VerifyBatches = &x
		}
		if ev.InitL1InfoRootMap != nil {
			x := *ev.InitL1InfoRootMap
			c.InitL1InfoRootMap = &x
		}
		out.Events = append(out.Events, c)
	}
	return out
}

// ---- injected GER store -----------------------------------------------------------------------

// GEROpts tunes the injected-GER history generator
type GEROpts struct {
	StartBlock    uint64
	Blocks        int
	EmptyBlockPct int
	GapPct        int
	Salt          uint64
	RemovePct     int
}

// GenGERHistory generates blocks for the injected-GER store: at most one GER event per block
// (the table's primary key declares that assumption), insertions with increasing L1 info indexes
// and removals of previously inserted roots; a removed root may be inserted again later.
func GenGERHistory(g *rand.Rand, o GEROpts, startIndex uint32) []aggsync.Block {
	var out []aggsync.Block
	num := o.StartBlock
	idx := startIndex
	type ins struct {
		ger common.Hash
		idx uint32
	}
	var live, removed []ins
	for i := 0; i < o.Blocks; i++ {
		if i > 0 {
			num++
			if g.Intn(100) < o.GapPct {
				num += uint64(1 + g.Intn(4))
			}
		}
		b := aggsync.Block{Num: num, Hash: BlockHash(o.Salt, num)}
		if g.Intn(100) >= o.EmptyBlockPct {
			switch {
			case len(live) > 0 && g.Intn(100) < o.RemovePct:
				k := g.Intn(len(live))
				b.Events = append(b.Events, &lastgersync.Event{GEREvent: &lastgersync.GEREvent{BlockNum: num, GlobalExitRoot: live[k].ger, IsRemove: true}})
				removed = append(removed, live[k])
				live = append(live[:k], live[k+1:]...)
			case len(removed) > 0 && g.Intn(8) == 0:
				k := g.Intn(len(removed))
				b.Events = append(b.Events, &lastgersync.Event{GEREvent: &lastgersync.GEREvent{BlockNum: num, GlobalExitRoot: removed[k].ger, L1InfoTreeIndex: removed[k].idx}})
				live = append(live, removed[k])
				removed = append(removed[:k], removed[k+1:]...)
			default:
				idx += uint32(g.Intn(3))
				x := ins{ger: RandHash(g), idx: idx}
				idx++
				if g.Intn(4) == 0 {
					b.Events = append(b.Events, &lastgersync.Event{GERInfo: &lastgersync.GlobalExitRootInfo{GlobalExitRoot: x.ger, L1InfoTreeIndex: x.idx}})
				} else {
					b.Events = append(b.Events, &lastgersync.Event{GEREvent: &lastgersync.GEREvent{BlockNum: num, GlobalExitRoot: x.ger, L1InfoTreeIndex: x.idx}})
				}
				live = append(live, x)
			}
		}
		out = append(out, b)
	}
	return out
}

// CloneGERBlock deep-copies a block of the injected-GER store
func CloneGERBlock(b aggsync.Block) aggsync.Block {
	out := aggsync.Block{Num: b.Num, Hash: b.Hash}
	for _, e := range b.Events {
		ev := e.(*lastgersync.Event)
		c := &lastgersync.Event{}
		if ev.GERInfo != nil {
			x := *ev.GERInfo
			c.GERInfo = &x
		}
		if ev.GEREvent != nil {
			x := *ev.GEREvent
			c.GEREvent = &x
		}
		out.Events = append(out.Events, c)
	}
	return out
}
