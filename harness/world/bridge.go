// Package world holds seeded generators of consistent chain histories at the level the stores
// consume them (sync.Block with typed events) together with their reference results.
package world

import (
	"fmt"
	"math/big"
	"math/rand"

	bridgetypes "github.com/agglayer/aggkit/bridgeservice/types"
	"github.com/agglayer/aggkit/bridgesync"
	aggsync "github.com/agglayer/aggkit/sync"
	"github.com/ethereum/go-ethereum/common"
	"github.com/ethereum/go-ethereum/crypto"
	"verifharness/ref"
)

// BlockHash derives a block hash from (fork salt, number)
func BlockHash(salt uint64, num uint64) common.Hash {
	return crypto.Keccak256Hash([]byte(fmt.Sprintf("blk-%d-%d", salt, num)))
}

func RandHash(g *rand.Rand) common.Hash {
	var h common.Hash
	g.Read(h[:])
	return h
}

func RandAddr(g *rand.Rand) common.Address {
	var a common.Address
	g.Read(a[:])
	return a
}

var maxU256 = new(big.Int).Sub(new(big.Int).Lsh(big.NewInt(1), 256), big.NewInt(1))

// RandAmount returns amounts incl. the boundary values 0, 1, 2^64, 2^256-1
func RandAmount(g *rand.Rand) *big.Int {
	switch g.Intn(7) {
	case 0:
		return big.NewInt(0)
	case 1:
		return big.NewInt(1)
	case 2:
		return new(big.Int).Lsh(big.NewInt(1), 64)
	case 3:
		return new(big.Int).Set(maxU256)
	case 4:
		b := make([]byte, 32)
		g.Read(b)
		return new(big.Int).SetBytes(b)
	}
	return big.NewInt(g.Int63())
}

// RandMetadata returns metadata of several length classes (empty, 1 byte, 32 bytes, multi-KB)
func RandMetadata(g *rand.Rand) []byte {
	var n int
	switch g.Intn(6) {
	case 0:
		return []byte{}
	case 1:
		n = 1
	case 2:
		n = 32
	case 3:
		n = 1 + g.Intn(100)
	case 4:
		n = 2000 + g.Intn(3000)
	default:
		n = 31 + g.Intn(3)
	}
	b := make([]byte, n)
	g.Read(b)
	return b
}

// BridgeOpts tunes the bridge history generator
type BridgeOpts struct {
	StartBlock     uint64 // first block number generated
	StartDeposit   uint32 // deposit count of the first bridge
	Blocks         int
	MaxEventsBlock int
	EmptyBlockPct  int  // percentage of blocks without events
	GapPct         int  // percentage chance to skip some block numbers (the syncer only sees event blocks)
	Claims         bool // generate claims
	Tokens         bool // token mappings / legacy migrations / removals
	Salt           uint64
	LegacyPool     []common.Address
	DupPct         int // percentage of bridges that repeat the content (= leaf) of an earlier bridge
	DupPool        *[]*bridgesync.Bridge
}

// BridgeLeafOf is the reference leaf hash of a bridge event
func BridgeLeafOf(b *bridgesync.Bridge) common.Hash {
	return ref.BridgeLeaf(b.LeafType, b.OriginNetwork, b.OriginAddress, b.DestinationNetwork,
		b.DestinationAddress, b.Amount, b.Metadata)
}

// RandBridge generates one bridge event (block num / pos filled by the caller)
func RandBridge(g *rand.Rand, depositCount uint32) *bridgesync.Bridge {
	return &bridgesync.Bridge{
		FromAddress:        RandAddr(g),
		TxHash:             RandHash(g),
		Calldata:           RandMetadata(g),
		BlockTimestamp:     uint64(g.Int63n(1 << 40)),
		LeafType:           uint8(g.Intn(2)),
		OriginNetwork:      []uint32{0, 1, 2, 7, 1<<32 - 1}[g.Intn(5)],
		OriginAddress:      RandAddr(g),
		DestinationNetwork: []uint32{0, 1, 2, 3, 1<<32 - 1}[g.Intn(5)],
		DestinationAddress: RandAddr(g),
		Amount:             RandAmount(g),
		Metadata:           RandMetadata(g),
		DepositCount:       depositCount,
		IsNativeToken:      g.Intn(2) == 0,
	}
}

// RandClaim generates one claim event with arbitrary (not necessarily provable) details; used
// by store-level checks where only storage fidelity matters
func RandClaim(g *rand.Rand) *bridgesync.Claim {
	var p1, p2 [32]common.Hash
	for i := range p1 {
		if g.Intn(3) == 0 {
			p1[i] = RandHash(g)
		}
		if g.Intn(3) == 0 {
			p2[i] = RandHash(g)
		}
	}
	mer, rer := RandHash(g), RandHash(g)
	mainnet := g.Intn(2) == 0
	gi := ref.GlobalIndex(mainnet, uint32(g.Intn(5)), uint32(g.Intn(1000)))
	return &bridgesync.Claim{
		FromAddress:         RandAddr(g),
		TxHash:              RandHash(g),
		GlobalIndex:         gi,
		OriginNetwork:       uint32(g.Intn(4)),
		OriginAddress:       RandAddr(g),
		DestinationAddress:  RandAddr(g),
		Amount:              RandAmount(g),
		ProofLocalExitRoot:  p1,
		ProofRollupExitRoot: p2,
		MainnetExitRoot:     mer,
		RollupExitRoot:      rer,
		GlobalExitRoot:      ref.GER(mer, rer),
		DestinationNetwork:  uint32(g.Intn(4)),
		Metadata:            RandMetadata(g),
		IsMessage:           g.Intn(2) == 0,
		BlockTimestamp:      uint64(g.Int63n(1 << 40)),
	}
}

// GenBridgeHistory generates blocks for the bridge store. Deposit counts are consecutive
// starting at o.StartDeposit. It returns the blocks (freshly allocated events).
func GenBridgeHistory(g *rand.Rand, o BridgeOpts) []aggsync.Block {
	var out []aggsync.Block
	num := o.StartBlock
	dc := o.StartDeposit
	legacy := append([]common.Address{}, o.LegacyPool...)
	if len(legacy) == 0 {
		for i := 0; i < 3; i++ {
			legacy = append(legacy, RandAddr(g))
		}
	}
	for i := 0; i < o.Blocks; i++ {
		if i > 0 {
			num++
			if g.Intn(100) < o.GapPct {
				num += uint64(1 + g.Intn(5))
			}
		}
		b := aggsync.Block{Num: num, Hash: BlockHash(o.Salt, num)}
		if g.Intn(100) >= o.EmptyBlockPct {
			n := 1 + g.Intn(max(o.MaxEventsBlock, 1))
			pos := uint64(g.Intn(3))
			for k := 0; k < n; k++ {
				kind := g.Intn(10)
				switch {
				case kind < 5 || (!o.Claims && !o.Tokens):
					br := RandBridge(g, dc)
					if o.DupPool != nil {
						if len(*o.DupPool) > 1 && g.Intn(100) < o.DupPct {
							// same content as one of the last few bridges (e.g. the same user bridging twice)
							pool := *o.DupPool
							src := pool[len(pool)-1-g.Intn(min(len(pool), 4))]
							c := *src
							c.DepositCount = dc
							c.Amount = cloneBig(src.Amount)
							br = &c
						}
						*o.DupPool = append(*o.DupPool, br)
					}
					br.BlockNum, br.BlockPos = num, pos
					dc++
					b.Events = append(b.Events, bridgesync.Event{Bridge: br})
				case kind < 8 && o.Claims:
					c := RandClaim(g)
					c.BlockNum, c.BlockPos = num, pos
					b.Events = append(b.Events, bridgesync.Event{Claim: c})
				case o.Tokens:
					switch g.Intn(4) {
					case 0, 1:
						b.Events = append(b.Events, bridgesync.Event{TokenMapping: &bridgesync.TokenMapping{
							BlockNum: num, BlockPos: pos, BlockTimestamp: uint64(g.Int63n(1 << 40)), TxHash: RandHash(g),
							OriginNetwork: uint32(g.Intn(3)), OriginTokenAddress: RandAddr(g), WrappedTokenAddress: RandAddr(g),
							Metadata: RandMetadata(g), IsNotMintable: g.Intn(2) == 0, Calldata: RandMetadata(g),
							Type: bridgetypes.TokenMappingType(g.Intn(2)),
						}})
					case 2:
						b.Events = append(b.Events, bridgesync.Event{LegacyTokenMigration: &bridgesync.LegacyTokenMigration{
							BlockNum: num, BlockPos: pos, BlockTimestamp: uint64(g.Int63n(1 << 40)), TxHash: RandHash(g),
							Sender: RandAddr(g), LegacyTokenAddress: legacy[g.Intn(len(legacy))], UpdatedTokenAddress: RandAddr(g),
							Amount: RandAmount(g), Calldata: RandMetadata(g),
						}})
					default:
						b.Events = append(b.Events, bridgesync.Event{RemoveLegacyToken: &bridgesync.RemoveLegacyToken{
							BlockNum: num, BlockPos: pos, BlockTimestamp: uint64(g.Int63n(1 << 40)), TxHash: RandHash(g),
							LegacyTokenAddress: legacy[g.Intn(len(legacy))],
						}})
					}
				default:
					c := RandClaim(g)
					c.BlockNum, c.BlockPos = num, pos
					b.Events = append(b.Events, bridgesync.Event{Claim: c})
				}
				pos += uint64(1 + g.Intn(3))
			}
		}
		out = append(out, b)
	}
	return out
}

func cloneBytes(b []byte) []byte {
	if b == nil {
		return nil
	}
	return append([]byte{}, b...)
}

func cloneBig(b *big.Int) *big.Int {
	if b == nil {
		return nil
	}
	return new(big.Int).Set(b)
}

// CloneBridgeBlock deep-copies a block so that the store under test can never alias the
// generator's data (ProcessBlock mutates some events)
func CloneBridgeBlock(b aggsync.Block) aggsync.Block {
	out := aggsync.Block{Num: b.Num, Hash: b.Hash}
	for _, e := range b.Events {
		ev := e.(bridgesync.Event)
		var c bridgesync.Event
		if ev.Bridge != nil {
			x := *ev.Bridge
			x.Amount, x.Metadata, x.Calldata = cloneBig(x.Amount), cloneBytes(x.Metadata), cloneBytes(x.Calldata)
			c.Bridge = &x
		}
		if ev.Claim != nil {
			x := *ev.Claim
			x.Amount, x.GlobalIndex, x.Metadata = cloneBig(x.Amount), cloneBig(x.GlobalIndex), cloneBytes(x.Metadata)
			c.Claim = &x
		}
		if ev.TokenMapping != nil {
			x := *ev.TokenMapping
			x.Metadata, x.Calldata = cloneBytes(x.Metadata), cloneBytes(x.Calldata)
			c.TokenMapping = &x
		}
		if ev.LegacyTokenMigration != nil {
			x := *ev.LegacyTokenMigration
			x.Amount, x.Calldata = cloneBig(x.Amount), cloneBytes(x.Calldata)
			c.LegacyTokenMigration = &x
		}
		if ev.RemoveLegacyToken != nil {
			x := *ev.RemoveLegacyToken
			c.RemoveLegacyToken = &x
		}
		out.Events = append(out.Events, c)
	}
	return out
}

// BridgesOf returns the bridge events of a history in order
func BridgesOf(blocks []aggsync.Block) []*bridgesync.Bridge {
	var out []*bridgesync.Bridge
	for _, b := range blocks {
		for _, e := range b.Events {
			if ev := e.(bridgesync.Event); ev.Bridge != nil {
				out = append(out, ev.Bridge)
			}
		}
	}
	return out
}

// GERof = keccak(mer || rer)
func GERof(mer, rer common.Hash) common.Hash { return ref.GER(mer, rer) }
