package checks

import (
	"context"
	"fmt"
	"runtime"
	"sync"
	"sync/atomic"
	"testing"
	"time"

	"github.com/agglayer/aggkit/aggsender"
	aggsendertypes "github.com/agglayer/aggkit/aggsender/types"
	"github.com/agglayer/aggkit/log"
	"verifharness/mon"
)

// C18 — each epoch is announced exactly once, at the first block past the threshold.
//
// Real NewEpochNotifierPerBlock + Start over a fake block notifier (unbuffered channel) and a
// synchronous recording GenericSubscriber: what is observed is the sequence of Publish calls.
// Oracle: integer reference (no floats).

type c18BlockNotifier struct {
	ch  chan aggsendertypes.EventNewBlock
	cur atomic.Uint64 // last block handed over (0 before the first one): what a status query sees
}

func (b *c18BlockNotifier) Subscribe(id string) <-chan aggsendertypes.EventNewBlock { return b.ch }
func (b *c18BlockNotifier) GetCurrentBlockNumber() uint64                           { return b.cur.Load() }
func (b *c18BlockNotifier) String() string                                          { return "c18" }

var c18StatusQueries atomic.Uint64

type c18Recorder struct {
	mu     sync.Mutex
	events []uint64 // epoch numbers, in Publish order
}

func (c *c18Recorder) Subscribe(string) <-chan aggsendertypes.EpochEvent { return nil }
func (c *c18Recorder) Publish(e aggsendertypes.EpochEvent) {
	c.mu.Lock()
	c.events = append(c.events, e.Epoch)
	c.mu.Unlock()
}

// c18Run feeds blocks to a fresh real notifier and returns the epochs of the Publish calls, in
// order. Only in-domain inputs are sent (strictly increasing blocks): the loop handles a block
// completely (step + Publish) before it looks at the context again, so cancel + wait for Start to
// return is the quiescence point. *When* an event was published is decided by prefix closure:
// the exhaustive campaign contains every prefix of every sequence, the random one runs every
// prefix explicitly, so an event published one block late/early makes some prefix differ.
func c18Run(start uint64, n uint, p uint, blocks []uint64) ([]uint64, error) {
	bn := &c18BlockNotifier{ch: make(chan aggsendertypes.EventNewBlock)}
	rec := &c18Recorder{}
	en, err := aggsender.NewEpochNotifierPerBlock(bn, log.WithFields("m", "c18"),
		aggsender.ConfigEpochNotifierPerBlock{StartingEpochBlock: start, NumBlockPerEpoch: n, EpochNotificationPercentage: p}, rec)
	if err != nil {
		return nil, err
	}
	ctx, cancel := context.WithCancel(context.Background())
	done := make(chan struct{})
	go func() { en.Start(ctx); close(done) }()
	for _, b := range blocks {
		// a status query (the read-only RPC entry point) between any two blocks, also while the chain
		// is still before the first epoch, must not change what is announced
		_ = en.GetEpochStatus()
		c18StatusQueries.Add(1)
		bn.ch <- aggsendertypes.EventNewBlock{BlockNumber: b}
		bn.cur.Store(b)
	}
	_ = en.GetEpochStatus()
	cancel()
	<-done
	rec.mu.Lock()
	defer rec.mu.Unlock()
	return append([]uint64{}, rec.events...), nil
}

// c18Ref: integer reference. Block b > start belongs to epoch 1+(b-start)/N and is past the
// threshold iff e*100 >= P*N or e >= N-1, e = (b-start) mod N. One event per epoch containing
// such a seen block, at the first one.
func c18Ref(start uint64, n uint, p uint, blocks []uint64) []uint64 {
	var out []uint64
	lastEpoch := uint64(0)
	N := uint64(n)
	for _, b := range blocks {
		if b <= start {
			continue
		}
		d := b - start
		ep := 1 + d/N
		e := d % N
		past := e*100 >= uint64(p)*N || e >= N-1
		if past && ep > lastEpoch {
			out = append(out, ep)
			lastEpoch = ep
		}
	}
	return out
}

func c18Equal(a, b []uint64) bool {
	if len(a) != len(b) {
		return false
	}
	for i := range a {
		if a[i] != b[i] {
			return false
		}
	}
	return true
}

func TestC18(t *testing.T) {
	r := mon.Start("C18", "exploration")
	r.Rule("exhaustive: every (N, start, P, subset of the next min(3N,14) blocks above start) in the tier's parameter box; " +
		"random: large N, huge gaps, block numbers near 2^63; signature = (N class, P class, #events, max gap class, skipped-epoch y/n)")
	r.Assume("blocks strictly above StartingEpochBlock (the notifier's initial state is 'start already seen'); a first block equal to the start is probed separately",
		"the subscriber is a synchronous recorder passed through the constructor: Publish calls are what is observed")

	type cfg struct {
		n     uint
		start uint64
		p     uint
	}
	var cfgs []cfg
	maxN := uint(r.N(5, 8))
	var ps []uint
	if r.Quick() {
		ps = []uint{0, 1, 10, 25, 33, 34, 50, 66, 67, 75, 90, 99}
	} else {
		for p := uint(0); p < 100; p++ {
			ps = append(ps, p)
		}
	}
	starts := []uint64{1, 2, 3, 10}
	if r.Quick() {
		starts = []uint64{1, 10}
	}
	for n := uint(1); n <= maxN; n++ {
		for _, s := range starts {
			for _, p := range ps {
				cfgs = append(cfgs, cfg{n, s, p})
			}
		}
	}
	maxBits := r.N(11, 14)
	workers := runtime.NumCPU()
	check := func(caseID string, c cfg, blocks []uint64, kind string) {
		if !r.Only(caseID) {
			return
		}
		sc := map[string]any{"N": c.n, "start": c.start, "P": c.p, "blocks": blocks}
		guard(r, caseID, sc, func() {
			got, err := c18Run(c.start, c.n, c.p, blocks)
			if err != nil {
				r.Violation("C18:constructor", caseID, err.Error(), sc)
				return
			}
			want := c18Ref(c.start, c.n, c.p, blocks)
			if !c18Equal(got, want) {
				sig := "C18:publish-sequence-differs"
				// finer signature
				switch {
				case len(got) > len(want):
					sig = "C18:extra-or-duplicate-notification"
				case len(got) < len(want):
					sig = "C18:missing-notification"
				default:
					sig = "C18:wrong-epoch-or-block"
				}
				r.Violation(sig, caseID, fmt.Sprintf("N=%d start=%d P=%d blocks=%v published=%v expected=%v", c.n, c.start, c.p, blocks, got, want), sc)
			}
			for i := 1; i < len(got); i++ {
				if got[i] <= got[i-1] {
					r.Violation("C18:epoch-not-increasing", caseID, fmt.Sprintf("published=%v", got), sc)
				}
			}
			maxGap := uint64(0)
			prev := c.start
			for _, b := range blocks {
				if b-prev > maxGap {
					maxGap = b - prev
				}
				prev = b
			}
			gapc := "1"
			switch {
			case maxGap > 2*uint64(c.n):
				gapc = ">2N"
			case maxGap > uint64(c.n):
				gapc = ">N"
			case maxGap > 1:
				gapc = ">1"
			}
			if len(blocks) == 0 {
				r.Eval("")
				return
			}
			r.Eval(fmt.Sprintf("%s/N=%d/P=%d/ev=%d/gap=%s", kind, min(int(c.n), 9), c.p/25, min(len(want), 4), gapc))
		})
	}

	total := 0
	parallel(len(cfgs), workers, func(ci int) {
		c := cfgs[ci]
		nb := min(3*int(c.n), maxBits)
		for mask := 0; mask < 1<<nb; mask++ {
			var blocks []uint64
			for k := 0; k < nb; k++ {
				if mask&(1<<k) != 0 {
					blocks = append(blocks, c.start+1+uint64(k))
				}
			}
			check(fmt.Sprintf("ex/%d/%d/%d/%d", c.n, c.start, c.p, mask), c, blocks, "ex")
		}
	})
	for _, c := range cfgs {
		total += 1 << min(3*int(c.n), maxBits)
	}
	r.Set("exhaustive_sequences", total)
	r.Exhaustive(false)
	r.Set("exhaustive_box", fmt.Sprintf("N in 1..%d, start in %v, %d percentages, every subset of the next min(3N,%d) blocks", maxN, starts, len(ps), maxBits))

	// random: large N, huge gaps, near 2^63
	nRand := r.N(20_000, 1_500_000)
	parallel(workers, workers, func(w int) {
		g := rng(r, "rand", w)
		for i := 0; i < nRand/workers; i++ {
			var c cfg
			switch g.Intn(4) {
			case 0:
				c.n = uint(1 + g.Intn(12))
			case 1:
				c.n = uint(1 + g.Intn(1000))
			case 2:
				c.n = uint(1 + g.Intn(1_000_000))
			default:
				c.n = uint([]int{1, 2, 3, 7, 10, 32, 100, 360, 1000}[g.Intn(9)])
			}
			c.p = uint(g.Intn(100))
			switch g.Intn(3) {
			case 0:
				c.start = uint64(g.Intn(100))
			case 1:
				c.start = uint64(g.Int63n(1 << 40))
			default:
				c.start = (1 << 62) + uint64(g.Int63n(1<<40))
			}
			k := 1 + g.Intn(25)
			blocks := make([]uint64, 0, k)
			cur := c.start
			for j := 0; j < k; j++ {
				var step uint64
				switch g.Intn(5) {
				case 0:
					step = 1
				case 1:
					step = 1 + uint64(g.Intn(3))
				case 2:
					step = 1 + uint64(g.Int63n(int64(c.n)+1))
				case 3:
					step = 1 + uint64(g.Int63n(3*int64(c.n)+1))
				default:
					step = 1 + uint64(g.Int63n(20*int64(c.n)+1))
				}
				cur += step
				blocks = append(blocks, cur)
			}
			// every prefix (decides *when* each event was published)
			for k := 1; k <= len(blocks); k++ {
				check(fmt.Sprintf("rand/%d/%d/%d", w, i, k), c, blocks[:k], "rand")
			}
		}
	})

	// delivery through the real GenericSubscriberImpl to a subscriber that is busy for several
	// epochs and only reads afterwards: every epoch must still arrive exactly once (order is a
	// matter of scheduling and is not judged)
	nSlow := r.N(300, 6000)
	parallel(workers, workers, func(w int) {
		g := rng(r, "slow", w)
		for i := 0; i < nSlow/workers; i++ {
			caseID := fmt.Sprintf("slow-subscriber/%d/%d", w, i)
			if !r.Only(caseID) {
				continue
			}
			c := cfg{n: uint(1 + g.Intn(12)), start: uint64(g.Intn(50)), p: uint(g.Intn(100))}
			var blocks []uint64
			cur := c.start
			for k := 2 + g.Intn(10); k > 0; k-- {
				cur += 1 + uint64(g.Intn(int(2*c.n)+1))
				blocks = append(blocks, cur)
			}
			sc := map[string]any{"N": c.n, "start": c.start, "P": c.p, "blocks": blocks}
			guard(r, caseID, sc, func() {
				bn := &c18BlockNotifier{ch: make(chan aggsendertypes.EventNewBlock)}
				sub := aggsender.NewGenericSubscriberImpl[aggsendertypes.EpochEvent]()
				en, err := aggsender.NewEpochNotifierPerBlock(bn, log.WithFields("m", "c18"),
					aggsender.ConfigEpochNotifierPerBlock{StartingEpochBlock: c.start, NumBlockPerEpoch: c.n, EpochNotificationPercentage: c.p}, sub)
				if err != nil {
					r.Inconclusive("notifier: " + err.Error())
					return
				}
				ch := en.Subscribe("slow")
				ctx, cancel := context.WithCancel(context.Background())
				done := make(chan struct{})
				go func() { en.Start(ctx); close(done) }()
				for _, b := range blocks {
					bn.ch <- aggsendertypes.EventNewBlock{BlockNumber: b}
				}
				cancel()
				<-done
				want := c18Ref(c.start, c.n, c.p, blocks)
				got := map[uint64]int{}
				n := 0
				for n < len(want)+2 {
					// missing events are waited for generously (the senders are goroutines that are
					// already blocked on the channel), surplus ones briefly
					wait := 10 * time.Second
					if n >= len(want) {
						wait = 100 * time.Millisecond
					}
					select {
					case e := <-ch:
						got[e.Epoch]++
						n++
						continue
					case <-time.After(wait):
					}
					break
				}
				ok := n == len(want)
				for _, ep := range want {
					if got[ep] != 1 {
						ok = false
					}
				}
				if !ok {
					r.Violation("C18:slow-subscriber:epochs-not-delivered-exactly-once", caseID, fmt.Sprintf("a subscriber that reads only after all blocks received epochs %v, expected each of %v exactly once", got, want), sc)
					return
				}
				r.Eval(fmt.Sprintf("slow-subscriber/events=%d", min(len(want), 5)))
			})
		}
	})

	// labelled probe outside the main domain: the first seen block equals StartingEpochBlock.
	// With N=1 (or P=0) that block is past the threshold of epoch 1 under the property's wording;
	// the notifier's initial state treats it as already seen. Classified in DESIGN.md §6(9).
	if r.Only("probe/start-block") {
		got, _ := c18Run(10, 1, 0, []uint64{10, 11})
		r.Set("probe_first_block_equals_start", fmt.Sprintf("N=1 start=10 blocks=[10 11] published=%v", got))
	}

	r.Sample(map[string]any{"N": 4, "start": 10, "P": 50, "blocks": []uint64{11, 12, 13, 14, 17}, "published": c18Ref(10, 4, 50, []uint64{11, 12, 13, 14, 17})})
	r.Sample(map[string]any{"N": 3, "start": 1, "P": 99, "blocks": []uint64{2, 9, 10}, "published": c18Ref(1, 3, 99, []uint64{2, 9, 10})})
	r.Set("status_queries_interleaved_with_blocks", int(c18StatusQueries.Load()))
	finish(t, r, r.N(60, 150))
}
