package checks

import (
	"context"
	"fmt"
	"math/big"
	"math/rand"
	"path/filepath"
	"sync"
	"time"

	"github.com/0xPolygon/cdk-contracts-tooling/contracts/fep/etrog/polygonrollupmanager"
	"github.com/0xPolygon/cdk-contracts-tooling/contracts/pp/l2-sovereign-chain/polygonzkevmglobalexitrootv2"
	"github.com/agglayer/aggkit/l1infotreesync"
	aggsync "github.com/agglayer/aggkit/sync"
	aggkittypes "github.com/agglayer/aggkit/types"
	"github.com/ethereum/go-ethereum/common"
	"verifharness/fakes"
	"verifharness/mon"
	"verifharness/ref"
	"verifharness/world"
)

var (
	l1GERAddr   = common.HexToAddress("0x00000000000000000000000000000000006e7001")
	l1RMAddr    = common.HexToAddress("0x00000000000000000000000000000000006e7002")
	gerABI, _   = polygonzkevmglobalexitrootv2.Polygonzkevmglobalexitrootv2MetaData.GetAbi()
	rmABI, _    = polygonrollupmanager.PolygonrollupmanagerMetaData.GetAbi()
	l1RollupIDs = []uint32{1, 2, 3, 7, 1 << 16, 1<<32 - 1}
)

// l1State is the reference state after some block (frontier, leaf count, rollup exit leaves)
type l1State struct {
	fr  ref.Frontier
	cnt uint32
	cur map[uint32]common.Hash
}

func (s *l1State) clone() *l1State {
	c := &l1State{fr: s.fr, cnt: s.cnt, cur: map[uint32]common.Hash{}}
	for k, v := range s.cur {
		c.cur[k] = v
	}
	return c
}

// l1ChainGen generates L1 info tree / rollup manager events directly on the chain simulator:
// ABI-encoded logs for the syncer plus the typed events for the reference, consistent with the
// fork they are mined on (announcements carry the real root of that fork).
type l1ChainGen struct {
	mu       sync.Mutex
	g        *rand.Rand
	eventPct int
	v2       bool
	wrongV2  map[uint64]bool // block numbers at which a wrong announcement is emitted (C14)
	typed    map[common.Hash]aggsync.Block
	state    map[common.Hash]*l1State
	pendNum  uint64
	pendSt   *l1State
	pendEv   map[uint64][]any
	pendSts  map[uint64]*l1State
	noise    bool
	generic  bool // also emit generic watched logs (for a second syncer sharing the reorg detector)
}

func newL1ChainGen(g *rand.Rand, eventPct int, v2 bool) *l1ChainGen {
	return &l1ChainGen{g: g, eventPct: eventPct, v2: v2, typed: map[common.Hash]aggsync.Block{}, state: map[common.Hash]*l1State{},
		pendEv: map[uint64][]any{}, pendSts: map[uint64]*l1State{}, wrongV2: map[uint64]bool{}, noise: true}
}

// gen is the fakes.LogGen; it must be followed by adopt() with the blocks that were built
func (l *l1ChainGen) gen(num uint64, parentHash common.Hash, ts uint64) []fakes.LogSpec {
	l.mu.Lock()
	defer l.mu.Unlock()
	g := l.g
	st, ok := l.state[parentHash]
	if !ok {
		if l.pendSt != nil && l.pendNum == num-1 {
			st = l.pendSt
		} else {
			st = &l1State{cur: map[uint32]common.Hash{}}
		}
	}
	st = st.clone()
	var logs []fakes.LogSpec
	var evs []any
	force := l.wrongV2[num]
	delete(l.wrongV2, num) // only the first block built at that height carries the wrong announcement
	if force || g.Intn(100) < l.eventPct {
		n := 1 + g.Intn(4)
		for k := 0; k < n; k++ {
			kind := g.Intn(10)
			if force && k == 0 {
				kind = 0
			}
			switch kind {
			case 0, 1, 2, 3, 4:
				mer, rer := world.RandHash(g), world.RandHash(g)
				logs = append(logs, fakes.PackLog(gerABI, l1GERAddr, "UpdateL1InfoTree", mer, rer))
				evs = append(evs, l1infotreesync.Event{UpdateL1InfoTree: &l1infotreesync.UpdateL1InfoTree{BlockPosition: uint64(len(logs) - 1),
					MainnetExitRoot: mer, RollupExitRoot: rer, ParentHash: parentHash, Timestamp: ts}})
				st.fr.Add(ref.L1InfoLeaf(ref.GER(mer, rer), parentHash, ts))
				st.cnt++
				if (l.v2 && g.Intn(2) == 0) || (force && k == 0) {
					root := st.fr.Root()
					if force && k == 0 {
						root = world.RandHash(g)
					}
					logs = append(logs, fakes.PackLog(gerABI, l1GERAddr, "UpdateL1InfoTreeV2", root, st.cnt, new(big.Int).SetBytes(parentHash[:]), ts))
					evs = append(evs, l1infotreesync.Event{UpdateL1InfoTreeV2: &l1infotreesync.UpdateL1InfoTreeV2{CurrentL1InfoRoot: root, LeafCount: st.cnt, Blockhash: parentHash, MinTimestamp: ts}})
				}
			case 5, 6, 7, 8:
				id := l1RollupIDs[g.Intn(len(l1RollupIDs))]
				var exit common.Hash
				switch g.Intn(6) {
				case 0:
				case 1:
					exit = st.cur[id]
				default:
					exit = world.RandHash(g)
				}
				if exit != (common.Hash{}) {
					st.cur[id] = exit
				}
				name := "VerifyBatches"
				if g.Intn(2) == 0 {
					name = "VerifyBatchesTrustedAggregator"
				}
				agg := world.RandAddr(g)
				sr := world.RandHash(g)
				nb := uint64(g.Intn(1000))
				logs = append(logs, fakes.PackLog(rmABI, l1RMAddr, name, id, nb, sr, exit, agg))
				evs = append(evs, l1infotreesync.Event{VerifyBatches: &l1infotreesync.VerifyBatches{BlockPosition: uint64(len(logs) - 1), RollupID: id,
					NumBatch: nb, StateRoot: sr, ExitRoot: exit, Aggregator: agg}})
			default:
				if l.noise {
					// logs the syncer must ignore: other contract / unwatched topic
					logs = append(logs, fakes.LogSpec{Address: otherAddr, Topics: []common.Hash{gerABI.Events["UpdateL1InfoTree"].ID, world.RandHash(g), world.RandHash(g)}})
					logs = append(logs, fakes.LogSpec{Address: l1GERAddr, Topics: []common.Hash{ignoredTopic}})
				}
			}
		}
	}
	// several events may be emitted by one transaction (same TxIndex, increasing log index)
	for i := 1; i < len(logs); i++ {
		if g.Intn(3) == 0 {
			logs[i].SameTx = true
		}
	}
	if l.generic && g.Intn(3) == 0 {
		logs = append(logs, genericLogs(g, 1+g.Intn(2), false)...)
	}
	l.pendEv[num] = evs
	l.pendSts[num] = st
	l.pendNum, l.pendSt = num, st
	return logs
}

// adopt binds the pending typed events / states to the hashes of the blocks that were built
func (l *l1ChainGen) adopt(blocks []*fakes.SimBlock) {
	l.mu.Lock()
	defer l.mu.Unlock()
	for _, b := range blocks {
		if st, ok := l.pendSts[b.Num()]; ok {
			l.state[b.Hash()] = st
			l.typed[b.Hash()] = aggsync.Block{Num: b.Num(), Hash: b.Hash(), Events: l.pendEv[b.Num()]}
			delete(l.pendSts, b.Num())
			delete(l.pendEv, b.Num())
		}
	}
}

// refOf computes the reference model of a canonical chain
func (l *l1ChainGen) refOf(canon []*fakes.SimBlock) *world.RefL1 {
	l.mu.Lock()
	defer l.mu.Unlock()
	rf := world.NewRefL1()
	for _, b := range canon {
		if tb, ok := l.typed[b.Hash()]; ok {
			rf.ApplyBlock(tb)
		}
	}
	return rf
}

// l1StoreMatches compares the real L1 info store with the reference of the canonical chain.
// It reads through the facade (so a halted store reports its error) and returns "" when equal.
func l1StoreMatches(s *l1infotreesync.L1InfoTreeSync, rf *world.RefL1) string {
	ctx := context.Background()
	for i, lf := range rf.Leaves {
		got, err := s.GetInfoByIndex(ctx, uint32(i))
		if err != nil {
			return fmt.Sprintf("GetInfoByIndex(%d): %v (reference has %d leaves)", i, err, len(rf.Leaves))
		}
		if got.Hash != lf.Hash || got.GlobalExitRoot != lf.GER || got.BlockNumber != lf.Block || got.MainnetExitRoot != lf.MER ||
			got.RollupExitRoot != lf.RER || got.PreviousBlockHash != lf.ParentHash || got.Timestamp != lf.Timestamp {
			return fmt.Sprintf("leaf %d differs: node block=%d hash=%s, canonical block=%d hash=%s", i, got.BlockNumber, got.Hash.Hex()[:10], lf.Block, lf.Hash.Hex()[:10])
		}
		rt, err := s.GetL1InfoTreeRootByIndex(ctx, uint32(i))
		if err != nil || rt.Hash != lf.Root {
			return fmt.Sprintf("L1 info root of index %d differs (err=%v)", i, err)
		}
	}
	if _, err := s.GetInfoByIndex(ctx, uint32(len(rf.Leaves))); err == nil {
		return fmt.Sprintf("node has a leaf at index %d, the canonical chain only has %d leaves", len(rf.Leaves), len(rf.Leaves))
	}
	last, err := s.GetLastRollupExitRoot(ctx)
	if len(rf.Updates) == 0 {
		if err == nil {
			return "node has a rollup exit root, the canonical chain has no effective verification"
		}
	} else {
		if err != nil || last.Hash != rf.Updates[len(rf.Updates)-1].Root {
			return fmt.Sprintf("last rollup exit root differs (err=%v)", err)
		}
		for id, want := range rf.Current {
			got, err := s.GetLocalExitRoot(ctx, id, last.Hash)
			if err != nil || got != want {
				return fmt.Sprintf("local exit root of rollup %d differs (err=%v)", id, err)
			}
		}
	}
	return ""
}

func bigInt(v int64) *big.Int { return big.NewInt(v) }

// newL1Syncer builds the real L1 info tree syncer (downloader + driver + processor) over a client
func newL1Syncer(ctx context.Context, dbPath string, rd aggsync.ReorgDetector, client aggkittypes.BaseEthereumClienter,
	chunk uint64, finality aggkittypes.BlockNumberFinality, initialBlock uint64) (*l1infotreesync.L1InfoTreeSync, error) {
	return l1infotreesync.New(ctx, dbPath, l1GERAddr, l1RMAddr, chunk, finality, rd, client,
		300*time.Microsecond, initialBlock, 200*time.Microsecond, -1,
		l1infotreesync.FlagAllowWrongContractsAddrs, aggkittypes.FinalizedBlock, false)
}

// c05L1Sync: the real L1 info tree syncer over a growing chain; final store vs reference
func c05L1Sync(r *mon.Run, caseID string, g *rand.Rand) {
	target := 30 + g.Intn(r.N(80, 250))
	chunk := uint64([]int{1, 2, 5, 10, 100}[g.Intn(5)])
	lag := []int{0, 2, 10, -1}[g.Intn(4)]
	maxJump := []int{1, 4, 25}[g.Intn(3)]
	scen := map[string]any{"target": target, "chunk": chunk, "lag": lag, "max_jump": maxJump}
	guard(r, caseID, scen, func() {
		ch := fakes.NewChain(1)
		lg := newL1ChainGen(g, 40, true)
		w := &pollWatcher{}
		var hmu sync.Mutex
		growing := true
		ch.Hook = func(c *fakes.Chain, m string, a any) error {
			w.observe(m, a)
			hmu.Lock()
			defer hmu.Unlock()
			if !growing {
				return nil
			}
			if g.Intn(3) == 0 {
				lg.adopt(c.MineFn(g.Intn(maxJump+1), lg.gen))
			}
			if lag >= 0 && g.Intn(3) == 0 {
				if h := c.Latest(); h > uint64(lag) {
					c.SetFinalized(h - uint64(lag))
				}
			}
			if int(c.Latest()) >= target {
				growing = false
			}
			return nil
		}
		lg.adopt(ch.MineFn(3, lg.gen))
		ctx, cancel := context.WithCancel(context.Background())
		s, err := newL1Syncer(ctx, filepath.Join(scratchDir("c05l1"), "l1.sqlite"), newFakeRD(), ch.Client(), chunk, aggkittypes.LatestBlock, 0)
		if err != nil {
			cancel()
			r.Inconclusive("cannot build the L1 info tree syncer: " + err.Error())
			return
		}
		done := make(chan struct{})
		go func() { s.Start(ctx); close(done) }()
		ok := false
		deadline := time.Now().Add(60 * time.Second)
		for time.Now().Before(deadline) {
			hmu.Lock()
			gr := growing
			hmu.Unlock()
			if !gr && w.waitIdle(6, 200*time.Millisecond) {
				ok = true
				break
			}
			time.Sleep(time.Millisecond)
		}
		rf := lg.refOf(ch.Canonical())
		diff := ""
		for tries := 0; tries < 2000; tries++ { // re-evaluation rule (<= 10 s)
			if diff = l1StoreMatches(s, rf); diff == "" {
				break
			}
			time.Sleep(5 * time.Millisecond)
		}
		cancel()
		<-done
		if diff != "" {
			ev := ch.Events()
			if len(ev) > 100 {
				ev = ev[len(ev)-100:]
			}
			scen["chain_events_tail"] = ev
			r.Violation(r.Prop+":l1infotreesync:store-differs-from-canonical-chain", caseID, diff, scen)
			return
		}
		if !ok {
			r.Inconclusive("L1 syncer scenario did not reach quiescence within the watchdog")
			return
		}
		r.Eval(fmt.Sprintf("l1sync/chunk=%d/lag=%d/jump=%d/leaves=%d", min(int(chunk), 10), lag, maxJump, min(len(rf.Leaves)/20, 3)))
		r.Add("l1sync_leaves_compared", len(rf.Leaves))
	})
}

// runL1SyncOverSim mines a complete L1 history on the simulator (ABI-encoded logs, several events
// per transaction, big rollup ids, zero / unchanged exit roots), then runs the real L1 info tree
// syncer over it until its downloader idles.
func runL1SyncOverSim(g *rand.Rand, target int) (*l1infotreesync.L1InfoTreeSync, *l1ChainGen, *fakes.Chain, func(), error) {
	ch := fakes.NewChain(1)
	lg := newL1ChainGen(g, 55, true)
	lg.adopt(ch.MineFn(target, lg.gen))
	if lag := g.Intn(3); lag == 0 {
		ch.SetFinalized(uint64(target))
	} else {
		ch.SetFinalized(uint64(target / (lag + 1)))
	}
	w := &pollWatcher{}
	ch.Hook = func(c *fakes.Chain, m string, a any) error { w.observe(m, a); return nil }
	ctx, cancel := context.WithCancel(context.Background())
	s, err := newL1Syncer(ctx, filepath.Join(scratchDir("l1sim"), "l1.sqlite"), newFakeRD(), ch.Client(),
		uint64([]int{1, 3, 10, 100}[g.Intn(4)]), aggkittypes.LatestBlock, 0)
	if err != nil {
		cancel()
		return nil, nil, nil, nil, err
	}
	done := make(chan struct{})
	go func() { s.Start(ctx); close(done) }()
	w.waitIdle(6, 30*time.Second)
	stop := func() {
		cancel()
		<-done
		_ = s.VerifDB().Close()
	}
	return s, lg, ch, stop, nil
}
