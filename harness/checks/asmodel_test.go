package checks

import (
	"bytes"
	"context"
	"errors"
	"fmt"
	"math/big"
	"path/filepath"
	"strings"
	"sync"
	"time"

	agglayertypes "github.com/agglayer/aggkit/agglayer/types"
	"github.com/agglayer/aggkit/aggsender"
	aggsendercfg "github.com/agglayer/aggkit/aggsender/config"
	aggsendertypes "github.com/agglayer/aggkit/aggsender/types"
	"github.com/agglayer/aggkit/bridgesync"
	cfgtypes "github.com/agglayer/aggkit/config/types"
	"github.com/agglayer/aggkit/l1infotreesync"
	"github.com/agglayer/aggkit/log"
	signertypes "github.com/agglayer/go_signer/signer/types"
	"github.com/ethereum/go-ethereum/common"
	"github.com/ethereum/go-ethereum/crypto"
	"verifharness/faultdb"
	"verifharness/ref"
)

// emptyLER is the root of an empty exit tree (the network's initial local exit root)
var emptyLER = ref.Zero[ref.Depth]

// mCert is a certificate as held by the model Agglayer
type mCert struct {
	ID     common.Hash
	Cert   *agglayertypes.Certificate
	Status agglayertypes.CertificateStatus
	From   uint64
	To     uint64
	Seq    int
	// AltTo: this certificate has the same id (same content) as an earlier attempt of the same height
	// that named a shorter / other block range; the blocks in between hold no events, and which of the
	// two metadata values a record carries is immaterial (see DESIGN.md, C13)
	AltTo []uint64
}

// endsAt: does the certificate's block range end at block b (under either metadata value)
func (c *mCert) endsAt(b uint64) bool {
	for _, t := range c.AltTo {
		if t == b {
			return true
		}
	}
	return c.To == b
}

// asCheck is a failed acceptance check, attributed to a property
type asCheck struct {
	Prop string
	Sig  string
	What string
}

type crashSentinel struct{ point string }

// modelAgglayer implements agglayer.AgglayerClientInterface. It stores every submitted
// certificate, moves it between statuses only when the schedule says so, can fail a call before
// or after taking effect, can "kill the process" (panic with a sentinel) at chosen points, and
// evaluates the executable specification of the Agglayer's checks (A1..A7) on every submission.
type modelAgglayer struct {
	mu     sync.Mutex
	w      *asWorld
	signer common.Address
	certs  []*mCert
	byID   map[common.Hash]*mCert

	failNext  string // "" | "before" | "after": applies to the next SendCertificate / header call
	crashAt   string // "" | "send-entry" | "send-after-record" | "next-call"
	recoveryQ int    // number of GetLatestPending calls (recovery rounds) – used to bound VerifInit
	onRound   func(n int)

	checks   []asCheck
	events   []string
	sends    int
	rejected int
}

func newModelAgglayer(w *asWorld, signer common.Address) *modelAgglayer {
	return &modelAgglayer{w: w, signer: signer, byID: map[common.Hash]*mCert{}}
}

func (m *modelAgglayer) ev(f string, a ...any) {
	if len(m.events) < 3000 {
		m.events = append(m.events, fmt.Sprintf(f, a...))
	}
}

func (m *modelAgglayer) lastSettled() *mCert {
	var out *mCert
	for _, c := range m.certs {
		if c.Status == agglayertypes.Settled {
			out = c
		}
	}
	return out
}

// openCert returns the certificate that is neither settled nor in error, if any
func (m *modelAgglayer) openCert() *mCert {
	for i := len(m.certs) - 1; i >= 0; i-- {
		if m.certs[i].Status.IsOpen() {
			return m.certs[i]
		}
	}
	return nil
}

// latestPending: the most recent certificate above the settled height (it may be InError)
func (m *modelAgglayer) latestPending() *mCert {
	ls := m.lastSettled()
	for i := len(m.certs) - 1; i >= 0; i-- {
		c := m.certs[i]
		if c.Status == agglayertypes.Settled {
			return nil
		}
		if ls == nil || c.Cert.Height > ls.Cert.Height {
			return c
		}
	}
	return nil
}

// latestForRecovery: what a restarting node learns as "the Agglayer's last certificate"
func (m *modelAgglayer) latestForRecovery() *mCert {
	if p := m.latestPending(); p != nil {
		return p
	}
	return m.lastSettled()
}

func (m *modelAgglayer) fail(prop, sig, f string, a ...any) {
	m.checks = append(m.checks, asCheck{Prop: prop, Sig: sig, What: fmt.Sprintf(f, a...)})
}

func (m *modelAgglayer) maybeCrash(point string) {
	if m.crashAt == point {
		m.crashAt = ""
		m.ev("CRASH at %s", point)
		panic(crashSentinel{point})
	}
}

// SendCertificate runs the acceptance checks and records the certificate
func (m *modelAgglayer) SendCertificate(ctx context.Context, c *agglayertypes.Certificate) (common.Hash, error) {
	m.mu.Lock()
	defer m.mu.Unlock()
	m.maybeCrash("send-entry")
	m.maybeCrash("next-call")
	if m.failNext == "before" {
		m.failNext = ""
		m.ev("send height=%d -> fails before taking effect", c.Height)
		return common.Hash{}, errors.New("injected agglayer error (request not processed)")
	}
	m.sends++
	id := c.Hash()
	_, from, offset, _, _ := metaOf(c.Metadata)
	mc := &mCert{ID: id, Cert: cloneCert(c), Status: agglayertypes.Pending, From: from, To: from + uint64(offset), Seq: len(m.certs)}
	if old := m.byID[id]; old != nil {
		mc.AltTo = append(append([]uint64{}, old.AltTo...), old.To)
	}
	nBefore := len(m.checks)
	m.check(mc)
	// like the real Agglayer, the model refuses a certificate while another one of the network is
	// undecided or when its height is not the next one (the failed check stays recorded)
	for _, ck := range m.checks[nBefore:] {
		if ck.Sig == "C02:submitted-while-earlier-certificate-undecided" || ck.Sig == "C02:wrong-height" {
			m.sends--
			m.rejected++
			m.ev("send height=%d blocks=[%d,%d] -> REJECTED (%s)", c.Height, mc.From, mc.To, ck.Sig)
			return common.Hash{}, fmt.Errorf("agglayer rejects the certificate: %s", ck.What)
		}
	}
	m.certs = append(m.certs, mc)
	m.byID[id] = mc
	m.ev("send id=%s height=%d blocks=[%d,%d] exits=%d imported=%d", id.Hex()[:10], c.Height, mc.From, mc.To, len(c.BridgeExits), len(c.ImportedBridgeExits))
	m.maybeCrash("send-after-record")
	if m.failNext == "after" {
		m.failNext = ""
		m.ev("  ... but the response is lost")
		return common.Hash{}, errors.New("injected agglayer error (response lost)")
	}
	return id, nil
}

func cloneCert(c *agglayertypes.Certificate) *agglayertypes.Certificate {
	x := *c
	x.BridgeExits = append([]*agglayertypes.BridgeExit{}, c.BridgeExits...)
	x.ImportedBridgeExits = append([]*agglayertypes.ImportedBridgeExit{}, c.ImportedBridgeExits...)
	return &x
}

func (m *modelAgglayer) header(c *mCert) *agglayertypes.CertificateHeader {
	prev := c.Cert.PrevLocalExitRoot
	return &agglayertypes.CertificateHeader{NetworkID: c.Cert.NetworkID, Height: c.Cert.Height, CertificateID: c.ID,
		PreviousLocalExitRoot: &prev, NewLocalExitRoot: c.Cert.NewLocalExitRoot, Status: c.Status, Metadata: c.Cert.Metadata}
}

func (m *modelAgglayer) GetCertificateHeader(ctx context.Context, id common.Hash) (*agglayertypes.CertificateHeader, error) {
	m.mu.Lock()
	defer m.mu.Unlock()
	m.maybeCrash("next-call")
	if m.failNext == "before" || m.failNext == "after" {
		m.failNext = ""
		m.ev("header(%s) -> injected error", id.Hex()[:10])
		return nil, errors.New("injected agglayer error")
	}
	c, ok := m.byID[id]
	if !ok {
		return nil, fmt.Errorf("certificate %s not found", id.Hex())
	}
	return m.header(c), nil
}

func (m *modelAgglayer) GetEpochConfiguration(ctx context.Context) (*agglayertypes.ClockConfiguration, error) {
	return &agglayertypes.ClockConfiguration{EpochDuration: 10, GenesisBlock: 1}, nil
}

func (m *modelAgglayer) GetLatestSettledCertificateHeader(ctx context.Context, networkID uint32) (*agglayertypes.CertificateHeader, error) {
	m.mu.Lock()
	defer m.mu.Unlock()
	m.maybeCrash("next-call")
	if c := m.lastSettled(); c != nil {
		return m.header(c), nil
	}
	return nil, nil
}

func (m *modelAgglayer) GetLatestPendingCertificateHeader(ctx context.Context, networkID uint32) (*agglayertypes.CertificateHeader, error) {
	m.mu.Lock()
	m.recoveryQ++
	n, cb := m.recoveryQ, m.onRound
	var h *agglayertypes.CertificateHeader
	if c := m.latestPending(); c != nil {
		h = m.header(c)
	}
	m.mu.Unlock()
	if cb != nil {
		cb(n)
	}
	return h, nil
}

// advance moves the open certificate to the next status; returns what happened
func (m *modelAgglayer) advance() string {
	m.mu.Lock()
	defer m.mu.Unlock()
	c := m.openCert()
	if c == nil {
		return "advance(nothing open)"
	}
	switch c.Status {
	case agglayertypes.Pending:
		c.Status = agglayertypes.Proven
	case agglayertypes.Proven:
		c.Status = agglayertypes.Candidate
	case agglayertypes.Candidate:
		c.Status = agglayertypes.Settled
	}
	m.ev("advance %s -> %s", c.ID.Hex()[:10], c.Status)
	return fmt.Sprintf("advance(h%d->%s)", c.Cert.Height, c.Status)
}

// settle moves the open certificate straight to Settled
func (m *modelAgglayer) settle() string {
	m.mu.Lock()
	defer m.mu.Unlock()
	if c := m.openCert(); c != nil {
		c.Status = agglayertypes.Settled
		m.ev("settle %s", c.ID.Hex()[:10])
		return fmt.Sprintf("settle(h%d)", c.Cert.Height)
	}
	return "settle(nothing open)"
}

// failCert moves the open certificate to InError
func (m *modelAgglayer) failCert() string {
	m.mu.Lock()
	defer m.mu.Unlock()
	if c := m.openCert(); c != nil {
		c.Status = agglayertypes.InError
		m.ev("inError %s", c.ID.Hex()[:10])
		return fmt.Sprintf("inError(h%d)", c.Cert.Height)
	}
	return "inError(nothing open)"
}

// ---- acceptance checks A1..A7 ------------------------------------------------------------------

func (m *modelAgglayer) check(c *mCert) {
	w := m.w
	cert := c.Cert
	tag := fmt.Sprintf("certificate #%d (height %d, blocks [%d,%d])", c.Seq, cert.Height, c.From, c.To)
	// A1: nothing else undecided
	if o := m.openCert(); o != nil {
		m.fail("C02", "C02:submitted-while-earlier-certificate-undecided", "%s submitted while certificate #%d (height %d) is still %s", tag, o.Seq, o.Cert.Height, o.Status)
	}
	ls := m.lastSettled()
	wantHeight, wantPrev, wantFrom := uint64(0), emptyLER, uint64(1)
	if ls != nil {
		wantHeight, wantPrev, wantFrom = ls.Cert.Height+1, ls.Cert.NewLocalExitRoot, ls.To+1
	}
	// A2: height
	if cert.Height != wantHeight {
		m.fail("C02", "C02:wrong-height", "%s: height %d, last settled height + 1 = %d", tag, cert.Height, wantHeight)
	}
	// A3: previous local exit root
	if cert.PrevLocalExitRoot != wantPrev {
		m.fail("C02", "C02:wrong-previous-local-exit-root", "%s: prev LER %s, new LER of the last settled certificate is %s", tag, cert.PrevLocalExitRoot.Hex()[:10], wantPrev.Hex()[:10])
	}
	// A5 (range part): first block; a replacement keeps the first block of the certificate it replaces
	ver, _, _, _, _ := metaOf(cert.Metadata)
	if ver != 2 {
		m.fail("C03", "C03:metadata-version", "%s: metadata version %d", tag, ver)
	}
	if c.From != wantFrom && !(ls != nil && c.From > 0 && ls.endsAt(c.From-1)) {
		m.fail("C02", "C02:wrong-first-block", "%s: first block %d, block after the last settled certificate's last block is %d", tag, c.From, wantFrom)
	}
	if c.To >= w.l2Next {
		m.fail("C03", "C03:range-beyond-processed-blocks", "%s: last block %d, L2 tip is %d", tag, c.To, w.l2Next-1)
	}
	for i := len(m.certs) - 1; i >= 0; i-- {
		p := m.certs[i]
		if p.Cert.Height == cert.Height && p.Status == agglayertypes.InError {
			if p.From != c.From {
				m.fail("C02", "C02:replacement-changes-first-block", "%s replaces certificate #%d (in error, first block %d) but starts at %d", tag, p.Seq, p.From, c.From)
			}
			break
		}
	}
	// A5 (content) + A4
	wb, wc := w.eventsIn(c.From, c.To)
	if len(cert.BridgeExits) != len(wb) {
		m.fail("C03", "C03:bridge-exits-differ-from-range", "%s carries %d bridge exits, blocks [%d,%d] hold %d bridges", tag, len(cert.BridgeExits), c.From, c.To, len(wb))
	} else {
		for i, be := range cert.BridgeExits {
			b := wb[i].Bridge
			if be.LeafType.Uint8() != b.LeafType || be.TokenInfo == nil || be.TokenInfo.OriginNetwork != b.OriginNetwork || be.TokenInfo.OriginTokenAddress != b.OriginAddress ||
				be.DestinationNetwork != b.DestinationNetwork || be.DestinationAddress != b.DestinationAddress || be.Amount == nil || be.Amount.Cmp(b.Amount) != 0 ||
				!bytes.Equal(be.Metadata, metaHash(b.Metadata)) {
				m.fail("C03", "C03:bridge-exit-field-altered", "%s: bridge exit %d does not equal deposit #%d of block %d field by field", tag, i, b.DepositCount, b.BlockNum)
				break
			}
		}
	}
	// A4: appending the exit hashes (computed by the reference from what was received) to the
	// tree whose root is prevLER gives newLER
	settledDeposits := 0
	for _, p := range m.certs {
		if p.Status == agglayertypes.Settled {
			settledDeposits += len(p.Cert.BridgeExits)
		}
	}
	var fr ref.Frontier
	for _, e := range w.l2Events {
		if e.Bridge != nil && int(fr.Count) < settledDeposits {
			fr.Add(ref.BridgeLeaf(e.Bridge.LeafType, e.Bridge.OriginNetwork, e.Bridge.OriginAddress, e.Bridge.DestinationNetwork, e.Bridge.DestinationAddress, e.Bridge.Amount, e.Bridge.Metadata))
		}
	}
	if fr.Root() == cert.PrevLocalExitRoot || (fr.Count == 0 && cert.PrevLocalExitRoot == emptyLER) {
		for _, be := range cert.BridgeExits {
			fr.Add(refExitHash(be))
		}
		if fr.Root() != cert.NewLocalExitRoot {
			m.fail("C03", "C03:new-local-exit-root-does-not-follow-from-exits", "%s: appending its %d exits to the tree with root prevLER gives %s, certificate says %s", tag, len(cert.BridgeExits), fr.Root().Hex()[:10], cert.NewLocalExitRoot.Hex()[:10])
		}
	} else if len(m.failsWith("C02:wrong-previous-local-exit-root")) == 0 {
		m.fail("C03", "C03:previous-local-exit-root-unknown", "%s: prev LER %s is not the settled exit tree's root", tag, cert.PrevLocalExitRoot.Hex()[:10])
	}
	// imported exits
	if len(cert.ImportedBridgeExits) != len(wc) {
		m.fail("C03", "C03:imported-exits-differ-from-range", "%s carries %d imported exits, blocks [%d,%d] hold %d claims", tag, len(cert.ImportedBridgeExits), c.From, c.To, len(wc))
	} else {
		m.checkImported(tag, cert, wc)
	}
	// A7: signature over the commitment recomputed from what was received
	var sigBytes []byte
	var h common.Hash
	switch ad := cert.AggchainData.(type) {
	case *agglayertypes.AggchainDataSignature:
		sigBytes, h = ad.Signature, refPPCommitment(cert)
	case *agglayertypes.AggchainDataProof:
		sigBytes, h = ad.Signature, refFEPCommitment(cert, ad.AggchainParams)
	}
	if len(sigBytes) != 65 {
		m.fail("C10", "C10:no-signature", "%s: no 65-byte signature attached", tag)
	} else {
		s := append([]byte{}, sigBytes...)
		if s[64] >= 27 {
			s[64] -= 27
		}
		pub, err := crypto.SigToPub(h[:], s)
		if err != nil || crypto.PubkeyToAddress(*pub) != m.signer {
			m.fail("C10", "C10:signature-does-not-cover-what-was-sent", "%s: the signature does not recover to the configured signer over the commitment recomputed from the received certificate", tag)
		}
	}
}

// refFEPCommitment = keccak(newLER || keccak(LE32(gi_i) || exitHash_i ...) || LE64(height) || aggchainParams)
func refFEPCommitment(c *agglayertypes.Certificate, params common.Hash) common.Hash {
	var chunks []byte
	for _, ibe := range c.ImportedBridgeExits {
		gi := ref.GlobalIndex(ibe.GlobalIndex.MainnetFlag, ibe.GlobalIndex.RollupIndex, ibe.GlobalIndex.LeafIndex)
		var be [32]byte
		gi.FillBytes(be[:])
		for i := 31; i >= 0; i-- {
			chunks = append(chunks, be[i])
		}
		eh := refExitHash(ibe.BridgeExit)
		chunks = append(chunks, eh[:]...)
	}
	var hl [8]byte
	for i := 0; i < 8; i++ {
		hl[i] = byte(c.Height >> (8 * uint(i)))
	}
	return crypto.Keccak256Hash(c.NewLocalExitRoot[:], crypto.Keccak256(chunks), hl[:], params[:])
}

func (m *modelAgglayer) failsWith(sig string) []asCheck {
	var out []asCheck
	for _, c := range m.checks {
		if c.Sig == sig {
			out = append(out, c)
		}
	}
	return out
}

func metaHash(md []byte) []byte {
	if len(md) == 0 {
		return nil
	}
	return crypto.Keccak256(md)
}

// refExitHash: the exit leaf as the Agglayer computes it from a received bridge exit
func refExitHash(be *agglayertypes.BridgeExit) common.Hash {
	var amt [32]byte
	if be.Amount != nil {
		be.Amount.FillBytes(amt[:])
	}
	mh := be.Metadata
	if len(mh) == 0 {
		mh = crypto.Keccak256(nil)
	}
	var on, dn [4]byte
	on[0], on[1], on[2], on[3] = byte(be.TokenInfo.OriginNetwork>>24), byte(be.TokenInfo.OriginNetwork>>16), byte(be.TokenInfo.OriginNetwork>>8), byte(be.TokenInfo.OriginNetwork)
	dn[0], dn[1], dn[2], dn[3] = byte(be.DestinationNetwork>>24), byte(be.DestinationNetwork>>16), byte(be.DestinationNetwork>>8), byte(be.DestinationNetwork)
	return crypto.Keccak256Hash([]byte{be.LeafType.Uint8()}, on[:], be.TokenInfo.OriginTokenAddress[:], dn[:], be.DestinationAddress[:], amt[:], mh)
}

// refPPCommitment = keccak(newLER || keccak(keccak(LE32(globalIndex_i)) ...))
func refPPCommitment(c *agglayertypes.Certificate) common.Hash {
	var parts [][]byte
	for _, ibe := range c.ImportedBridgeExits {
		gi := ref.GlobalIndex(ibe.GlobalIndex.MainnetFlag, ibe.GlobalIndex.RollupIndex, ibe.GlobalIndex.LeafIndex)
		var be [32]byte
		gi.FillBytes(be[:])
		le := make([]byte, 32)
		for i := range le {
			le[i] = be[31-i]
		}
		parts = append(parts, crypto.Keccak256(le))
	}
	return crypto.Keccak256Hash(c.NewLocalExitRoot[:], crypto.Keccak256(parts...))
}

// checkImported: A5 for claims (field by field, order) and A6 (proofs)
func (m *modelAgglayer) checkImported(tag string, cert *agglayertypes.Certificate, wc []asEvent) {
	w := m.w
	var namedRoot *common.Hash
	for i, ibe := range cert.ImportedBridgeExits {
		ev := wc[i]
		cl := ev.Claim
		lf := w.l1Leaves[ev.ClaimLeaf]
		wantGI := cl.GlobalIndex
		gotGI := ref.GlobalIndex(ibe.GlobalIndex.MainnetFlag, ibe.GlobalIndex.RollupIndex, ibe.GlobalIndex.LeafIndex)
		be := ibe.BridgeExit
		wantType := uint8(0)
		if cl.IsMessage {
			wantType = 1
		}
		if gotGI.Cmp(wantGI) != 0 || be == nil || be.LeafType.Uint8() != wantType || be.TokenInfo.OriginNetwork != cl.OriginNetwork || be.TokenInfo.OriginTokenAddress != cl.OriginAddress ||
			be.DestinationNetwork != cl.DestinationNetwork || be.DestinationAddress != cl.DestinationAddress || be.Amount.Cmp(cl.Amount) != 0 || !bytes.Equal(be.Metadata, metaHash(cl.Metadata)) {
			m.fail("C03", "C03:imported-exit-field-altered", "%s: imported exit %d does not equal the claim at block %d pos %d field by field (global index 0x%x vs 0x%x)", tag, i, cl.BlockNum, cl.BlockPos, gotGI, wantGI)
			continue
		}
		exitHash := refExitHash(be)
		var l1 *agglayertypes.L1InfoTreeLeaf
		var gerProof *agglayertypes.MerkleProof
		switch cd := ibe.ClaimData.(type) {
		case *agglayertypes.ClaimFromMainnnet:
			if !ev.ClaimMainnet {
				m.fail("C09", "C09:claim-kind", "%s: imported exit %d is a rollup claim but carries mainnet claim data", tag, i)
				continue
			}
			l1, gerProof = cd.L1Leaf, cd.ProofGERToL1Root
			if got := ref.VerifyProof(exitHash, cd.ProofLeafMER.Proof, ibe.GlobalIndex.LeafIndex); got != cd.L1Leaf.MainnetExitRoot || cd.ProofLeafMER.Root != cd.L1Leaf.MainnetExitRoot {
				m.fail("C09", "C09:mainnet-proof-does-not-reach-mainnet-exit-root", "%s: imported exit %d: exit hash + proof_leaf_mer at leaf %d gives %s, the L1 leaf's mainnet exit root is %s", tag, i, ibe.GlobalIndex.LeafIndex, got.Hex()[:10], cd.L1Leaf.MainnetExitRoot.Hex()[:10])
			}
		case *agglayertypes.ClaimFromRollup:
			if ev.ClaimMainnet {
				m.fail("C09", "C09:claim-kind", "%s: imported exit %d is a mainnet claim but carries rollup claim data", tag, i)
				continue
			}
			l1, gerProof = cd.L1Leaf, cd.ProofGERToL1Root
			ler := ref.VerifyProof(exitHash, cd.ProofLeafLER.Proof, ibe.GlobalIndex.LeafIndex)
			if ler != cd.ProofLeafLER.Root || ler != lf.otherLER {
				m.fail("C09", "C09:rollup-proof-does-not-reach-local-exit-root", "%s: imported exit %d: exit hash + proof_leaf_ler gives %s, stated LER %s, the origin rollup's exit root under that GER is %s", tag, i, ler.Hex()[:10], cd.ProofLeafLER.Root.Hex()[:10], lf.otherLER.Hex()[:10])
			}
			if got := ref.VerifyProof(ler, cd.ProofLERToRER.Proof, ibe.GlobalIndex.RollupIndex); got != cd.L1Leaf.RollupExitRoot || cd.ProofLERToRER.Root != cd.L1Leaf.RollupExitRoot {
				m.fail("C09", "C09:ler-proof-does-not-reach-rollup-exit-root", "%s: imported exit %d: LER + proof_ler_rer at rollup index %d gives %s, the L1 leaf's rollup exit root is %s", tag, i, ibe.GlobalIndex.RollupIndex, got.Hex()[:10], cd.L1Leaf.RollupExitRoot.Hex()[:10])
			}
		default:
			m.fail("C09", "C09:no-claim-data", "%s: imported exit %d has no claim data", tag, i)
			continue
		}
		// the L1 leaf is the one the claim was made against
		if l1.MainnetExitRoot != lf.MER || l1.RollupExitRoot != lf.RER || l1.Inner.GlobalExitRoot != lf.GER || ref.GER(l1.MainnetExitRoot, l1.RollupExitRoot) != l1.Inner.GlobalExitRoot {
			m.fail("C09", "C09:l1-leaf-is-not-the-claimed-ger", "%s: imported exit %d: enclosed L1 leaf (GER %s) is not the one the claim was made against (GER %s)", tag, i, l1.Inner.GlobalExitRoot.Hex()[:10], lf.GER.Hex()[:10])
		}
		if l1.L1InfoTreeIndex != lf.Index || l1.Inner.BlockHash != lf.ParentHash || l1.Inner.Timestamp != lf.Timestamp {
			m.fail("C09", "C09:l1-leaf-data-altered", "%s: imported exit %d: L1 leaf index/blockhash/timestamp (%d) differ from the L1 info tree's leaf %d", tag, i, l1.L1InfoTreeIndex, lf.Index)
		}
		leafHash := ref.L1InfoLeaf(l1.Inner.GlobalExitRoot, l1.Inner.BlockHash, l1.Inner.Timestamp)
		got := ref.VerifyProof(leafHash, gerProof.Proof, l1.L1InfoTreeIndex)
		if got != gerProof.Root {
			m.fail("C09", "C09:l1-leaf-proof-does-not-reach-named-root", "%s: imported exit %d: L1 leaf %d + proof_ger_l1root gives %s, named L1 info root %s", tag, i, l1.L1InfoTreeIndex, got.Hex()[:10], gerProof.Root.Hex()[:10])
		}
		if namedRoot == nil {
			r := gerProof.Root
			namedRoot = &r
		} else if *namedRoot != gerProof.Root {
			m.fail("C09", "C09:imported-exits-name-different-roots", "%s: imported exits name different L1 info roots", tag)
		}
	}
	if namedRoot != nil {
		n := int(cert.L1InfoTreeLeafCount)
		if n < 1 || n > len(w.l1Roots) || w.l1Roots[n-1] != *namedRoot {
			m.fail("C09", "C09:leaf-count-does-not-belong-to-named-root", "%s: l1_info_tree_leaf_count %d does not belong to the named L1 info root %s", tag, n, namedRoot.Hex()[:10])
		} else if n > w.finalizedLeafCountLocked() {
			m.fail("C09", "C09:named-root-not-finalized", "%s: named L1 info root has %d leaves, only %d are finalized on L1", tag, n, w.finalizedLeafCountLocked())
		}
	}
}

func (w *asWorld) finalizedLeafCountLocked() int { return w.finalizedLeafCount() }

// ---- the node under test --------------------------------------------------------------------------

type asEpochNotifier struct {
	mu      sync.Mutex
	deliver bool
}

func (e *asEpochNotifier) Subscribe(id string) <-chan aggsendertypes.EpochEvent {
	e.mu.Lock()
	defer e.mu.Unlock()
	ch := make(chan aggsendertypes.EpochEvent, 1)
	if e.deliver {
		ch <- aggsendertypes.EpochEvent{Epoch: 1}
	}
	return ch
}
func (e *asEpochNotifier) Start(ctx context.Context) {}
func (e *asEpochNotifier) GetEpochStatus() aggsendertypes.EpochStatus {
	return aggsendertypes.EpochStatus{Epoch: 1, PercentEpoch: 0.5}
}
func (e *asEpochNotifier) String() string { return "verif" }

type asNodeCfg struct {
	RetryAfterInError bool
	MaxCertSize       uint
	KeepHistory       bool
	FEP               bool // aggchain-prover flow (built by the harness around fakes) instead of PP
	ExternalPP        bool // PP flow built by the harness (lets a recording signer be injected)
	FaultDB           bool // certificate storage opened through the fault-injecting driver (needs ExternalPP or FEP)
}

type asNode struct {
	as     *aggsender.AggSender
	en     *asEpochNotifier
	cfg    asNodeCfg
	path   string
	signer *recSigner
	prover *fakeProver
	fault  *faultdb.Controller
}

// newASNode builds the real AggSender (PP mode: real storage, status checker, PPFlow + baseFlow,
// query objects, local signer) over the world's real stores and the model Agglayer, and runs the
// real start-up reconciliation. refused=true means the node (rightly or wrongly) refuses to proceed.
func newASNode(w *asWorld, m *modelAgglayer, keystorePath string, cfg asNodeCfg) (n *asNode, refused bool, err error) {
	en := &asEpochNotifier{}
	c := aggsendercfg.Config{
		StoragePath:                filepath.Join(w.dir, "aggsender.sqlite"),
		AggsenderPrivateKey:        signertypes.SignerConfig{Method: signertypes.MethodLocal, Config: map[string]any{"path": keystorePath, "password": asSignerPass}},
		Mode:                       string(aggsendertypes.PessimisticProofMode),
		MaxRetriesStoreCertificate: 1,
		DelayBetweenRetries:        cfgtypes.NewDuration(100 * time.Microsecond),
		KeepCertificatesHistory:    cfg.KeepHistory,
		MaxCertSize:                cfg.MaxCertSize,
		RetryCertAfterInError:      cfg.RetryAfterInError,
		BlockFinality:              "LatestBlock",
	}
	var as *aggsender.AggSender
	n = &asNode{en: en, cfg: cfg, path: c.StoragePath}
	if cfg.FEP || cfg.ExternalPP {
		as, err = buildWithFlow(w, m, c, cfg, en, n)
	} else {
		as, err = aggsender.New(context.Background(), log.WithFields("m", "as"), c, m, w.l1Store.Facade.(*l1infotreesync.L1InfoTreeSync),
			w.l2Store.Facade.(*bridgesync.BridgeSync), en, w.l1.Client(), nil, fakeRollupData{})
	}
	if err != nil {
		return nil, false, err
	}
	n.as = as
	// bounded start-up: the reconciliation loop retries until it succeeds; after 4 complete
	// rounds of recovery queries the context is cancelled (= the node refuses to proceed)
	ctx, cancel := context.WithCancel(context.Background())
	m.mu.Lock()
	start := m.recoveryQ
	m.onRound = func(k int) {
		if k-start >= 4 {
			cancel()
		}
	}
	m.mu.Unlock()
	ierr := as.VerifInit(ctx)
	m.mu.Lock()
	m.onRound = nil
	m.mu.Unlock()
	cancel()
	if ierr != nil {
		return n, true, ierr
	}
	return n, false, nil
}

func (n *asNode) epochStep() {
	n.en.mu.Lock()
	n.en.deliver = true
	n.en.mu.Unlock()
	n.as.VerifEpochStep(context.Background())
}

func (n *asNode) statusStep() {
	n.en.mu.Lock()
	n.en.deliver = false
	n.en.mu.Unlock()
	n.as.VerifStatusStep(context.Background())
}

// rows reads the certificate rows of the node's storage
func (n *asNode) rows() ([]*aggsendertypes.CertificateHeader, error) {
	return n.as.VerifStorage().GetCertificateHeadersByStatus(nil)
}

func rowsString(rows []*aggsendertypes.CertificateHeader) string {
	var s []string
	for _, r := range rows {
		s = append(s, fmt.Sprintf("h%d:%s:%s[%d,%d]", r.Height, r.CertificateID.Hex()[:8], r.Status, r.FromBlock, r.ToBlock))
	}
	return strings.Join(s, " ")
}

var _ = big.NewInt
