package checks

import (
	"context"
	"encoding/json"
	"errors"
	"fmt"
	"math/rand"
	"reflect"
	"sort"
	"strings"

	"github.com/agglayer/aggkit/db"
	aggsync "github.com/agglayer/aggkit/sync"
	"github.com/ethereum/go-ethereum/common"
)

// Generic "ask every exported query" machinery used by C04, C07 and C14: the exported method set
// of a store facade is enumerated by reflection (so entry points added later are included),
// argument tuples are generated once from pools and then applied to several stores so that
// their answers can be compared.

type call struct {
	Method string
	Args   []reflect.Value
	Desc   string
}

// argPools gives candidate values: per (method, arg index) overrides first, then by type
type argPools struct {
	Override map[string]map[int][]any
	U64      []uint64
	U32      []uint32
	Hashes   []common.Hash
	Strings  []string
}

var (
	ctxType   = reflect.TypeOf((*context.Context)(nil)).Elem()
	errType   = reflect.TypeOf((*error)(nil)).Elem()
	hashType  = reflect.TypeOf(common.Hash{})
	u64Type   = reflect.TypeOf(uint64(0))
	u32Type   = reflect.TypeOf(uint32(0))
	pu64Type  = reflect.TypeOf((*uint64)(nil))
	su32Type  = reflect.TypeOf([]uint32(nil))
	strType   = reflect.TypeOf("")
	blockType = reflect.TypeOf(aggsync.Block{})
)

func (p *argPools) candidates(method string, i int, t reflect.Type) ([]reflect.Value, bool) {
	if ov, ok := p.Override[method]; ok {
		if vals, ok := ov[i]; ok {
			out := make([]reflect.Value, 0, len(vals))
			for _, v := range vals {
				if v == nil {
					out = append(out, reflect.Zero(t))
				} else {
					out = append(out, reflect.ValueOf(v).Convert(t))
				}
			}
			return out, true
		}
	}
	switch t {
	case ctxType:
		return []reflect.Value{reflect.ValueOf(context.Background())}, true
	case u64Type:
		out := make([]reflect.Value, len(p.U64))
		for k, v := range p.U64 {
			out[k] = reflect.ValueOf(v)
		}
		return out, true
	case u32Type:
		out := make([]reflect.Value, len(p.U32))
		for k, v := range p.U32 {
			out[k] = reflect.ValueOf(v)
		}
		return out, true
	case hashType:
		out := make([]reflect.Value, len(p.Hashes))
		for k, v := range p.Hashes {
			out[k] = reflect.ValueOf(v)
		}
		return out, true
	case pu64Type:
		out := []reflect.Value{reflect.Zero(t)}
		for _, v := range p.U64 {
			v := v
			out = append(out, reflect.ValueOf(&v))
		}
		return out, true
	case su32Type:
		return []reflect.Value{reflect.Zero(t), reflect.ValueOf([]uint32{0}), reflect.ValueOf([]uint32{1, 2}), reflect.ValueOf([]uint32{3, 1<<32 - 1})}, true
	case strType:
		out := []reflect.Value{reflect.ValueOf("")}
		for _, s := range p.Strings {
			out = append(out, reflect.ValueOf(s))
		}
		return out, true
	}
	return nil, false
}

// queryMethods lists the exported methods of the facade that are data-query entry points:
// at least one non-error result together with an error result. `exclude` names lifecycle /
// hook / collaborator-dependent methods (with the reason, kept for the evidence).
func queryMethods(store any, exclude map[string]string) []reflect.Method {
	t := reflect.TypeOf(store)
	var out []reflect.Method
	for i := 0; i < t.NumMethod(); i++ {
		m := t.Method(i)
		if _, ex := exclude[m.Name]; ex || strings.HasPrefix(m.Name, "Verif") {
			continue
		}
		hasErr, hasVal := false, false
		for k := 0; k < m.Type.NumOut(); k++ {
			if m.Type.Out(k) == errType {
				hasErr = true
			} else {
				hasVal = true
			}
		}
		if hasErr && hasVal {
			out = append(out, m)
		}
	}
	return out
}

// buildCalls generates up to maxPer argument tuples per query method
func buildCalls(store any, exclude map[string]string, pools *argPools, g *rand.Rand, maxPer int) (calls []call, unsupported []string) {
	for _, m := range queryMethods(store, exclude) {
		var cands [][]reflect.Value
		ok := true
		empty := false
		total := 1
		for i := 1; i < m.Type.NumIn(); i++ { // 0 is the receiver
			c, found := pools.candidates(m.Name, i-1, m.Type.In(i))
			if !found {
				ok = false
				break
			}
			if len(c) == 0 { // nothing to ask right now (e.g. no root recorded yet)
				empty = true
				break
			}
			cands = append(cands, c)
			if total < 1<<20 {
				total *= len(c)
			}
		}
		if !ok {
			unsupported = append(unsupported, m.Name)
			continue
		}
		if empty {
			continue
		}
		mk := func(idx []int) call {
			args := make([]reflect.Value, len(idx))
			parts := make([]string, 0, len(idx))
			for i, k := range idx {
				args[i] = cands[i][k]
				if args[i].Type() != ctxType {
					parts = append(parts, renderArg(args[i]))
				}
			}
			return call{Method: m.Name, Args: args, Desc: m.Name + "(" + strings.Join(parts, ",") + ")"}
		}
		if total <= maxPer {
			idx := make([]int, len(cands))
			for {
				calls = append(calls, mk(append([]int{}, idx...)))
				k := len(idx) - 1
				for k >= 0 {
					idx[k]++
					if idx[k] < len(cands[k]) {
						break
					}
					idx[k] = 0
					k--
				}
				if k < 0 {
					break
				}
			}
		} else {
			seen := map[string]bool{}
			for tries := 0; len(seen) < maxPer && tries < maxPer*4; tries++ {
				idx := make([]int, len(cands))
				for i := range idx {
					idx[i] = g.Intn(len(cands[i]))
				}
				c := mk(idx)
				if !seen[c.Desc] {
					seen[c.Desc] = true
					calls = append(calls, c)
				}
			}
		}
	}
	return calls, unsupported
}

func renderArg(v reflect.Value) string {
	switch v.Type() {
	case hashType:
		h := v.Interface().(common.Hash)
		return h.Hex()[:10]
	case pu64Type:
		if v.IsNil() {
			return "nil"
		}
		return fmt.Sprintf("&%d", v.Elem().Uint())
	}
	return fmt.Sprintf("%v", v.Interface())
}

type answer struct {
	Val      string // JSON of the non-error results
	Err      string // error text ("" if nil)
	NotFound bool
	Incons   bool
	ZeroVal  bool // every non-error result is the zero value / nil / empty
}

// ask performs one call and renders the answer
func ask(store any, c call) (a answer) {
	defer func() {
		if p := recover(); p != nil {
			a = answer{Err: fmt.Sprintf("PANIC: %v", p)}
		}
	}()
	m := reflect.ValueOf(store).MethodByName(c.Method)
	outs := m.Call(c.Args)
	var vals []any
	a.ZeroVal = true
	for _, o := range outs {
		if o.Type() == errType {
			if !o.IsNil() {
				err := o.Interface().(error)
				a.Err = err.Error()
				a.NotFound = errors.Is(err, db.ErrNotFound)
				a.Incons = errors.Is(err, aggsync.ErrInconsistentState)
			}
			continue
		}
		vals = append(vals, o.Interface())
		if !isZeroish(o) {
			a.ZeroVal = false
		}
	}
	b, err := json.Marshal(vals)
	if err != nil {
		a.Val = fmt.Sprintf("%+v", vals)
	} else {
		a.Val = string(b)
	}
	return a
}

func isZeroish(v reflect.Value) bool {
	switch v.Kind() {
	case reflect.Ptr, reflect.Interface, reflect.Map:
		return v.IsNil()
	case reflect.Slice:
		return v.Len() == 0
	}
	return v.IsZero()
}

// askAll applies the calls to a store
func askAll(store any, calls []call) []answer {
	out := make([]answer, len(calls))
	for i, c := range calls {
		out[i] = ask(store, c)
	}
	return out
}

// diffAnswers returns descriptions of the calls whose answers differ (value or error text)
func diffAnswers(calls []call, a, b []answer) []string {
	var out []string
	for i := range calls {
		if a[i].Val != b[i].Val || a[i].Err != b[i].Err {
			out = append(out, fmt.Sprintf("%s: A=(%s, err=%q) B=(%s, err=%q)", calls[i].Desc, clip(a[i].Val, 160), a[i].Err, clip(b[i].Val, 160), b[i].Err))
		}
	}
	return out
}

func clip(s string, n int) string {
	if len(s) > n {
		return s[:n] + "…"
	}
	return s
}

func methodsOf(calls []call) []string {
	m := map[string]bool{}
	for _, c := range calls {
		m[c.Method] = true
	}
	var out []string
	for k := range m {
		out = append(out, k)
	}
	sort.Strings(out)
	return out
}
