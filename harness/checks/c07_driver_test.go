package checks

import (
	"context"
	"errors"
	"fmt"
	"runtime"
	"strings"
	"sync"
	"time"

	"github.com/agglayer/aggkit/db/compatibility"
	"github.com/agglayer/aggkit/reorgdetector"
	aggsync "github.com/agglayer/aggkit/sync"
	aggkittypes "github.com/agglayer/aggkit/types"
	"github.com/ethereum/go-ethereum/common"
	"verifharness/mon"
)

// ---- fakes at the driver's boundary ------------------------------------------------------------

// fakeRD is a reorg detector that never reports a reorg unless told to
type fakeRD struct {
	sub *reorgdetector.Subscription
}

func newFakeRD() *fakeRD {
	return &fakeRD{sub: &reorgdetector.Subscription{ReorgedBlock: make(chan uint64), ReorgProcessed: make(chan bool)}}
}
func (f *fakeRD) Subscribe(id string) (*reorgdetector.Subscription, error) { return f.sub, nil }
func (f *fakeRD) AddBlockToTrack(ctx context.Context, id string, n uint64, h common.Hash) error {
	return nil
}
func (f *fakeRD) GetFinalizedBlockType() aggkittypes.BlockNumberFinality {
	return aggkittypes.FinalizedBlock
}
func (f *fakeRD) String() string { return "fakeRD" }

// scriptDownloader hands the scripted blocks (>= fromBlock) to the driver, then idles
type scriptDownloader struct {
	blocks []aggsync.Block
	kind   string
}

func (d *scriptDownloader) Download(ctx context.Context, fromBlock uint64, ch chan aggsync.EVMBlock) {
	for _, b := range d.blocks {
		if b.Num < fromBlock {
			continue
		}
		cb := cloneBlock(d.kind, b)
		select {
		case ch <- aggsync.EVMBlock{EVMBlockHeader: aggsync.EVMBlockHeader{Num: cb.Num, Hash: cb.Hash}, IsFinalizedBlock: true, Events: cb.Events}:
		case <-ctx.Done():
			close(ch)
			return
		}
	}
	<-ctx.Done()
	close(ch)
}
func (d *scriptDownloader) RuntimeData(ctx context.Context) (aggsync.RuntimeData, error) {
	return aggsync.RuntimeData{ChainID: 1}, nil
}

type procIface interface {
	GetLastProcessedBlock(ctx context.Context) (uint64, error)
	ProcessBlock(ctx context.Context, block aggsync.Block) error
	Reorg(ctx context.Context, firstReorgedBlock uint64) error
	compatibility.CompatibilityDataStorager[aggsync.RuntimeData]
}

// recProc wraps the real processor behind the real driver: it records every ProcessBlock call
// and arms the storage fault for the chosen block's first attempt only
type recProc struct {
	procIface
	st        *store
	mu        sync.Mutex
	calls     []string
	okNums    []uint64
	faultNum  uint64
	faultStmt int
	armedOnce bool
	faultErr  error
	done      chan struct{}
	lastNum   uint64
}

func (p *recProc) ProcessBlock(ctx context.Context, b aggsync.Block) error {
	p.mu.Lock()
	arm := b.Num == p.faultNum && !p.armedOnce
	if arm {
		p.armedOnce = true
		p.st.Fault.Arm(p.faultStmt, false)
	}
	p.mu.Unlock()
	err := p.procIface.ProcessBlock(ctx, b)
	p.mu.Lock()
	defer p.mu.Unlock()
	if arm {
		p.st.Fault.Disarm()
		p.faultErr = err
	}
	p.calls = append(p.calls, fmt.Sprintf("process(%d)=%v", b.Num, err))
	if err == nil {
		p.okNums = append(p.okNums, b.Num)
		if b.Num == p.lastNum {
			select {
			case <-p.done:
			default:
				close(p.done)
			}
		}
	}
	return err
}

// c07Driver: plane 3 — through the real sync.EVMDriver
func c07Driver(r *mon.Run) {
	kinds := []string{"bridge", "l1info", "ger"}
	n := r.N(10, 120)
	type job struct {
		kind string
		i    int
	}
	var jobs []job
	for _, k := range kinds {
		for i := 0; i < n; i++ {
			jobs = append(jobs, job{k, i})
		}
	}
	parallel(len(jobs), runtime.NumCPU(), func(j int) {
		kind, i := jobs[j].kind, jobs[j].i
		caseID := fmt.Sprintf("driver/%s/%d", kind, i)
		if !r.Only(caseID) {
			return
		}
		g := rng(r, "c07drv-"+kind, i)
		trace := []string{}
		sc := map[string]any{"kind": kind, "trace": &trace}
		guard(r, caseID, sc, func() {
			h := newHistory(kind, g)
			A, err := newFaultStore(kind, "c07D")
			if err != nil {
				r.Inconclusive("cannot open store: " + err.Error())
				return
			}
			defer A.Close()
			T, err := newFaultStore(kind, "c07DT")
			if err != nil {
				r.Inconclusive("cannot open store: " + err.Error())
				return
			}
			defer T.Close()
			A.Fault.OnlyInTx(true)
			T.Fault.OnlyInTx(true)
			blocks := h.extend(6 + g.Intn(6))
			// the faulted block: prefer one with events, not the last one
			fi := g.Intn(len(blocks) - 1)
			for tries := 0; tries < 10 && len(blocks[fi].Events) == 0; tries++ {
				fi = g.Intn(len(blocks) - 1)
			}
			nStmts := 0
			for bi, b := range blocks {
				if bi == fi {
					T.Fault.Arm(0, false)
				}
				if err := T.Process(b); err != nil {
					r.Violation("C07:"+kind+":process-error", caseID, fmt.Sprintf("twin ProcessBlock(%d): %v", b.Num, err), sc)
					return
				}
				if bi == fi {
					nStmts, _, _ = T.Fault.Disarm()
				}
			}
			k := 1 + g.Intn(nStmts)
			rp := &recProc{procIface: A.Proc.(procIface), st: A, faultNum: blocks[fi].Num, faultStmt: k, done: make(chan struct{}), lastNum: blocks[len(blocks)-1].Num}
			trace = append(trace, "script "+strings.Join(blockSummary(kind, blocks), " "), fmt.Sprintf("fault at statement %d/%d of block %d", k, nStmts, blocks[fi].Num))
			rh := &aggsync.RetryHandler{RetryAfterErrorPeriod: time.Millisecond, MaxRetryAttemptsAfterError: -1}
			drv, err := aggsync.NewEVMDriver(newFakeRD(), rp, &scriptDownloader{blocks: blocks, kind: kind}, "verif", 100, rh, false)
			if err != nil {
				r.Inconclusive("cannot build driver: " + err.Error())
				return
			}
			ctx, cancel := context.WithCancel(context.Background())
			finished := make(chan struct{})
			go func() { drv.Sync(ctx); close(finished) }()
			// quiescence: the last block was recorded, or nothing happens any more (bounded)
			deadline := time.After(8 * time.Second)
			lastLen := -1
			stable := 0
		wait:
			for {
				select {
				case <-rp.done:
					break wait
				case <-deadline:
					break wait
				case <-time.After(50 * time.Millisecond):
					rp.mu.Lock()
					l := len(rp.calls)
					rp.mu.Unlock()
					if l == lastLen {
						stable++
					} else {
						stable, lastLen = 0, l
					}
					if stable > 40 { // 2 s without any call: the driver has stopped feeding
						break wait
					}
				}
			}
			cancel()
			<-finished
			rp.mu.Lock()
			calls := append([]string{}, rp.calls...)
			ok := append([]uint64{}, rp.okNums...)
			ferr := rp.faultErr
			rp.mu.Unlock()
			trace = append(trace, "calls "+strings.Join(calls, " "))
			// online rule, judged on the recorded call sequence: successful blocks are exactly a
			// prefix of the script, in order (no later block while an earlier one is missing)
			for idx, num := range ok {
				if idx >= len(blocks) || blocks[idx].Num != num {
					want := uint64(0)
					if idx < len(blocks) {
						want = blocks[idx].Num
					}
					cause := "other"
					if errors.Is(ferr, aggsync.ErrInconsistentState) {
						cause = "storage-fault-reported-as-inconsistent-state"
					}
					r.Violation(fmt.Sprintf("C07:%s:driver:later-block-recorded-while-earlier-missing:%s", kind, cause), caseID,
						fmt.Sprintf("block %d was recorded while block %d (which failed with %q) is missing; calls: %s", num, want, ferr, strings.Join(calls, " ")), sc)
					return
				}
			}
			if ferr == nil {
				r.Cover("driver/" + kind + "/fault-did-not-surface")
			}
			if len(ok) == len(blocks) {
				// key_value holds the driver's compatibility record, which the twin (no driver) lacks
				fa, _ := dbFingerprint(A.DB, "key_value")
				ft, _ := dbFingerprint(T.DB, "key_value")
				if d := fpDiff(ft, fa); len(d) > 0 {
					r.Violation(fmt.Sprintf("C07:%s:driver:state-differs-after-retry:%s", kind, fpTables(d)), caseID,
						fmt.Sprintf("after the driver retried block %d the store differs from a fault-free run: %v", blocks[fi].Num, d), sc)
					return
				}
				r.Eval(fmt.Sprintf("driver/%s/retried/ev=%d", kind, min(len(blocks[fi].Events), 3)))
			} else {
				// bounded progress: with a transient fault and retries every ms the whole script
				// must be recorded well within the watchdog
				r.Violation(fmt.Sprintf("C07:%s:driver:failed-block-never-retried", kind), caseID,
					fmt.Sprintf("after a transient storage fault on block %d (%v) the driver stopped: recorded %v of %d blocks; calls: %s", blocks[fi].Num, ferr, ok, len(blocks), strings.Join(calls, " ")), sc)
			}
		})
	})
}
