package checks

import (
	"math/big"
	"fmt"
	"runtime"
	"testing"

	"verifharness/mon"
	"verifharness/ref"
)

// C03 — a built certificate's new exit root follows from its bridge exits.
// Same system as C02 (real AggSender over real stores, model Agglayer); this check reports the
// content clauses: A4 (appending the received exits to the tree with root prevLER gives newLER),
// A5 (exits / imported exits are exactly the range's events, in order, field by field) and the
// metadata clause. The generator stresses ranges: size limiter on/off, empty blocks, claim-only
// ranges, retries after InError.
func TestC03(t *testing.T) {
	r := mon.Start("C03", "exploration")
	r.Rule("PRNG walks of the aggsender world biased towards many L2 blocks per certificate (bridges, claims, empty blocks), with and without the size limiter, with InError retries; " +
		"every certificate received by the model Agglayer is judged: exit tree arithmetic with reference hashes, field-by-field equality with the world's events of the block range named by its metadata; " +
		"signature = (previous certificate state, tick kind, outcome) and walk classes (#certificates, limiter)")
	r.Assume("the certificate observed is the one received by the model Agglayer (client boundary)")
	alphabet := []int{stL2Events, stL2Events, stL2Events, stL2Empty, stEpoch, stStatus, stSettle, stSettle, stInError, stL1Advance, stAdvance, stL2Reorg, stFailBefore}
	cfgs := []asNodeCfg{{RetryAfterInError: true}, {RetryAfterInError: true, MaxCertSize: 3000}, {RetryAfterInError: false, MaxCertSize: 9000}, {RetryAfterInError: false},
		{RetryAfterInError: true, FEP: true}, {RetryAfterInError: false, FEP: true, MaxCertSize: 9000}}
	n := r.N(120, 4000)
	parallel(n, runtime.NumCPU(), func(i int) {
		caseID := fmt.Sprintf("walk/%d", i)
		if !r.Only(caseID) {
			return
		}
		g := rng(r, "c03", i)
		c02Walk(r, caseID, g, cfgs[g.Intn(len(cfgs))], nil, 50+g.Intn(r.N(50, 100)), alphabet, false, "C03")
	})
	finish(t, r, r.N(15, 30), "prev=settled/epoch/sent", "prev=inError/*", "walk/*")
}

// C09 — claim proofs inside a certificate verify against the L1 info root it names.
// Decided by check A6 of the model Agglayer on every certificate with imported exits; the
// generator is biased towards claims (mainnet and rollup origin, several per certificate, against
// the newest and against older finalized GERs, several L1 info leaves per L1 block) and towards a
// moving finalized pointer.
func TestC09(t *testing.T) {
	r := mon.Start("C09", "exploration")
	r.Rule("PRNG walks biased towards claims and L1 progress; every imported bridge exit received by the model Agglayer is judged: L1 leaf hash + proof reach the named root, all exits name one root, " +
		"the leaf count belongs to that root and is finalized, GER = keccak(MER,RER) and is the claimed one, exit hash + proofs reach MER resp. LER and RER; " +
		"signature = walk classes and (previous certificate state, tick kind, outcome)")
	r.Assume("claims are made against global exit roots at or below the finalized L1 info root (the oracle only injects finalized roots)")
	alphabet := []int{stL2Events, stL2Events, stL2Empty, stEpoch, stStatus, stSettle, stSettle, stL1Advance, stL1Advance, stInError}
	cfgs := []asNodeCfg{{RetryAfterInError: true}, {RetryAfterInError: false}, {RetryAfterInError: true, MaxCertSize: 20000}, {RetryAfterInError: true, FEP: true}}
	n := r.N(120, 6000)
	parallel(n, runtime.NumCPU(), func(i int) {
		caseID := fmt.Sprintf("walk/%d", i)
		if !r.Only(caseID) {
			return
		}
		g := rng(r, "c09", i)
		c02Walk(r, caseID, g, cfgs[g.Intn(len(cfgs))], nil, 50+g.Intn(r.N(50, 100)), alphabet, false, "C09")
	})
	// where the claims come from (plane shared with C20): a claim's leaf type, proofs and exit roots
	// are taken from the transaction's call trace; transactions that claim an asset AND a message
	// (both contract generations) must leave each claim with the details of its own call, otherwise
	// the imported exit's leaf would not lead to the exit roots
	nTr := r.N(300, 20000)
	parallel(runtime.NumCPU(), runtime.NumCPU(), func(w int) {
		g := rng(r, "c09trace", w)
		for i := 0; i < nTr/runtime.NumCPU(); i++ {
			pre := g.Intn(4) == 0
			target := ref.GlobalIndex(g.Intn(2) == 0, uint32(g.Intn(3)), uint32(g.Intn(100)))
			if pre {
				target = big.NewInt(int64(g.Intn(1000)))
			}
			root := c20Other(g)
			nCalls := 2 + g.Intn(3)
			match := g.Intn(nCalls)
			for k := 0; k < nCalls; k++ {
				gi := new(big.Int).Add(target, big.NewInt(int64(1+k)))
				if k == match {
					gi = new(big.Int).Set(target)
				}
				f := c20ClaimCall(g, gi, pre && g.Intn(2) == 0)
				if g.Intn(3) == 0 {
					mid := c20Other(g)
					mid.Calls = append(mid.Calls, f)
					f = mid
				}
				root.Calls = append(root.Calls, f)
			}
			c20Check(r, fmt.Sprintf("trace/%d/%d", w, i), root, target, "c09")
		}
	})
	finish(t, r, r.N(10, 20), "prev=settled/epoch/sent", "walk/*")
}
