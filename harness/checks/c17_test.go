package checks

import (
	"context"
	"fmt"
	"math/big"
	"runtime"
	"testing"

	agglayertypes "github.com/agglayer/aggkit/agglayer/types"
	aggsenderdb "github.com/agglayer/aggkit/aggsender/db"
	"github.com/agglayer/aggkit/aggsender/flows"
	aggsendertypes "github.com/agglayer/aggkit/aggsender/types"
	"github.com/agglayer/aggkit/bridgesync"
	"github.com/agglayer/aggkit/log"
	"github.com/ethereum/go-ethereum/common"
	"verifharness/mon"
)

// C17 — cutting a certificate's block range never drops, duplicates or reorders events.

type c17Querier struct {
	last    uint64
	bridges []bridgesync.Bridge
	claims  []bridgesync.Claim
}

func (q *c17Querier) GetBridgesAndClaims(ctx context.Context, from, to uint64) ([]bridgesync.Bridge, []bridgesync.Claim, error) {
	var b []bridgesync.Bridge
	var c []bridgesync.Claim
	for _, x := range q.bridges {
		if x.BlockNum >= from && x.BlockNum <= to {
			b = append(b, x)
		}
	}
	for _, x := range q.claims {
		if x.BlockNum >= from && x.BlockNum <= to {
			c = append(c, x)
		}
	}
	return b, c, nil
}
func (q *c17Querier) GetExitRootByIndex(ctx context.Context, index uint32) (common.Hash, error) {
	return common.Hash{}, nil
}
func (q *c17Querier) GetLastProcessedBlock(ctx context.Context) (uint64, error) { return q.last, nil }
func (q *c17Querier) OriginNetwork() uint32                                     { return 1 }
func (q *c17Querier) WaitForSyncerToCatchUp(ctx context.Context, block uint64) error {
	return nil
}

type c17Storage struct {
	aggsenderdb.AggSenderStorage // unimplemented methods panic (never called on this path)
	last                         *aggsendertypes.CertificateHeader
}

func (s *c17Storage) GetLastSentCertificateHeader() (*aggsendertypes.CertificateHeader, error) {
	return s.last, nil
}

type c17Layout struct {
	From, To  uint64
	BridgeBlk []uint64 `json:"bridge_blocks"`
	BridgeMd  []int    `json:"bridge_metadata_len"`
	ClaimBlk  []uint64 `json:"claim_blocks"`
	ClaimMd   []int    `json:"claim_metadata_len"`
	Max       uint     `json:"max_cert_size"`
	Type      uint8    `json:"cert_type"`
	Retry     bool     `json:"retry"`
	LastTo    uint64   `json:"failed_cert_to_block,omitempty"`
}

func c17Build(l c17Layout) ([]bridgesync.Bridge, []bridgesync.Claim) {
	var bs []bridgesync.Bridge
	var cs []bridgesync.Claim
	for i, b := range l.BridgeBlk {
		bs = append(bs, bridgesync.Bridge{BlockNum: b, BlockPos: uint64(i), DepositCount: uint32(i), Metadata: make([]byte, l.BridgeMd[i]), Amount: big.NewInt(int64(i))})
	}
	for i, b := range l.ClaimBlk {
		cs = append(cs, bridgesync.Claim{BlockNum: b, BlockPos: uint64(1000 + i), GlobalIndex: big.NewInt(int64(i)), Metadata: make([]byte, l.ClaimMd[i]), Amount: big.NewInt(int64(i))})
	}
	return bs, cs
}

func c17Size(bs []bridgesync.Bridge, cs []bridgesync.Claim, ct aggsendertypes.CertificateType, to uint64) uint {
	p := &aggsendertypes.CertificateBuildParams{CertificateType: ct}
	for _, b := range bs {
		if b.BlockNum <= to {
			p.Bridges = append(p.Bridges, b)
		}
	}
	for _, c := range cs {
		if c.BlockNum <= to {
			p.Claims = append(p.Claims, c)
		}
	}
	return p.EstimatedSize()
}

func TestC17(t *testing.T) {
	r := mon.Start("C17", "exploration")
	r.Rule("layouts: PRNG event positions / metadata lengths over a block range, PRNG size limit or last-block limit; range pairs: boundary set^4 exhaustively + PRNG; " +
		"signature = (limiter kind, cut y/n, single-block overflow y/n, #events class, retry y/n) resp. (pair relation class, endpoint class)")
	r.Assume("EstimatedSize of the repo is the size notion of the property (its monotonicity in the prefix is itself checked)")
	lg := log.WithFields("m", "c17")
	workers := runtime.NumCPU()

	// ---- size limit through the real GetCertificateBuildParamsInternal -----------------------
	nLayouts := r.N(20_000, 2_000_000)
	parallel(workers, workers, func(w int) {
		g := rng(r, "size", w)
		for i := 0; i < nLayouts/workers; i++ {
			caseID := fmt.Sprintf("size/%d/%d", w, i)
			prevTo := uint64(g.Intn(50))
			if g.Intn(8) == 0 {
				prevTo = 0
			}
			span := uint64(1 + g.Intn(12))
			l := c17Layout{From: prevTo + 1, To: prevTo + span}
			nb, nc := g.Intn(8), g.Intn(6)
			if g.Intn(10) == 0 {
				nb, nc = 0, 0
			}
			mdl := func() int {
				switch g.Intn(4) {
				case 0:
					return 0
				case 1:
					return g.Intn(40)
				case 2:
					return g.Intn(2000)
				}
				return 32
			}
			blk := func(n int) []uint64 {
				out := make([]uint64, n)
				for k := range out {
					out[k] = l.From + uint64(g.Intn(int(span)))
				}
				// chain order
				for a := 1; a < n; a++ {
					for b := a; b > 0 && out[b] < out[b-1]; b-- {
						out[b], out[b-1] = out[b-1], out[b]
					}
				}
				return out
			}
			l.BridgeBlk, l.ClaimBlk = blk(nb), blk(nc)
			for range l.BridgeBlk {
				l.BridgeMd = append(l.BridgeMd, mdl())
			}
			for range l.ClaimBlk {
				l.ClaimMd = append(l.ClaimMd, mdl())
			}
			l.Type = uint8(1 + g.Intn(2))
			l.Retry = g.Intn(4) == 0
			bs, cs := c17Build(l)
			ct := aggsendertypes.CertificateType(l.Type)
			full := c17Size(bs, cs, ct, l.To)
			switch g.Intn(5) {
			case 0:
				l.Max = 0
			case 1:
				l.Max = 1 + uint(g.Intn(int(full)+1))
			case 2:
				l.Max = full
			case 3:
				l.Max = full - 1
			default:
				l.Max = c17Size(bs, cs, ct, l.From+uint64(g.Intn(int(span)))) + uint(g.Intn(3)) - 1
			}
			if !r.Only(caseID) {
				continue
			}
			guard(r, caseID, l, func() {
				q := &c17Querier{last: l.To, bridges: bs, claims: cs}
				st := &c17Storage{}
				if l.Retry {
					// last certificate InError over [From, x] => retry keeps From
					st.last = &aggsendertypes.CertificateHeader{FromBlock: l.From, ToBlock: l.From + uint64(g.Intn(int(span))), Status: agglayertypes.InError, Height: 3}
				} else if prevTo > 0 {
					st.last = &aggsendertypes.CertificateHeader{FromBlock: 1, ToBlock: prevTo, Status: agglayertypes.Settled, Height: 2}
				}
				bf := flows.NewBaseFlow(lg, q, st, nil, nil, flows.NewBaseFlowConfig(l.Max, 0, false))
				res, err := bf.GetCertificateBuildParamsInternal(context.Background(), ct)
				if err != nil {
					r.Violation("C17:size:error", caseID, err.Error(), l)
					return
				}
				c17CheckCut(r, "size", caseID, l, bs, cs, ct, res)
				// the same flow object is asked again after the events of the range changed (an L2 reorg
				// re-synced the blocks, lighter or heavier metadata): the answer must only depend on
				// the current events, not on an earlier call
				if g.Intn(3) == 0 {
					l2 := l
					l2.BridgeMd, l2.ClaimMd = nil, nil
					for range l2.BridgeBlk {
						l2.BridgeMd = append(l2.BridgeMd, []int{0, 0, 32, g.Intn(2000)}[g.Intn(4)])
					}
					for range l2.ClaimBlk {
						l2.ClaimMd = append(l2.ClaimMd, []int{0, 0, 32, g.Intn(2000)}[g.Intn(4)])
					}
					bs2, cs2 := c17Build(l2)
					q.bridges, q.claims = bs2, cs2
					res2, err := bf.GetCertificateBuildParamsInternal(context.Background(), ct)
					if err != nil {
						r.Violation("C17:size:error", caseID, "second call on the same flow: "+err.Error(), l2)
						return
					}
					c17CheckCut(r, "size-second-call", caseID, l2, bs2, cs2, ct, res2)
				}
			})
		}
	})

	// ---- Range() directly and the last-block limiter -----------------------------------------
	nLim := r.N(20_000, 2_000_000)
	parallel(workers, workers, func(w int) {
		g := rng(r, "lim", w)
		for i := 0; i < nLim/workers; i++ {
			caseID := fmt.Sprintf("lim/%d/%d", w, i)
			from := uint64(1 + g.Intn(40))
			span := uint64(1 + g.Intn(12))
			l := c17Layout{From: from, To: from + span - 1, Type: 1}
			nb, nc := g.Intn(7), g.Intn(5)
			for k := 0; k < nb; k++ {
				l.BridgeBlk = append(l.BridgeBlk, from+uint64(g.Intn(int(span))))
				l.BridgeMd = append(l.BridgeMd, g.Intn(64))
			}
			for k := 0; k < nc; k++ {
				l.ClaimBlk = append(l.ClaimBlk, from+uint64(g.Intn(int(span))))
				l.ClaimMd = append(l.ClaimMd, g.Intn(64))
			}
			sortU64(l.BridgeBlk)
			sortU64(l.ClaimBlk)
			bs, cs := c17Build(l)
			maxBlk := from + uint64(g.Intn(int(span)+3)) - 1 // from-1 … to+1
			if maxBlk == 0 {
				maxBlk = 1
			}
			l.Max = uint(maxBlk)
			l.Retry = g.Intn(4) == 0
			l.LastTo = l.To
			if g.Intn(2) == 0 {
				l.LastTo = from + uint64(g.Intn(int(span)+2))
			}
			allowResize := g.Intn(2) == 0
			requireBridge := g.Intn(2) == 0
			if !r.Only(caseID) {
				continue
			}
			sc := map[string]any{"layout": l, "maxL2Block": maxBlk, "allowResizeRetry": allowResize, "requireOneBridge": requireBridge}
			guard(r, caseID, sc, func() {
				full := &aggsendertypes.CertificateBuildParams{FromBlock: l.From, ToBlock: l.To, Bridges: bs, Claims: cs, CertificateType: 1}
				if l.Retry {
					full.RetryCount = 1
					// the failed certificate a retry replaces started at the same block; where it ended
					// (before, at or beyond the new limit) must not influence the cut
					full.LastSentCertificate = &aggsendertypes.CertificateHeader{FromBlock: l.From, ToBlock: l.LastTo}
				}
				lim := flows.NewMaxL2BlockNumberLimiter(maxBlk, lg, allowResize, requireBridge)
				res, err := lim.AdaptCertificate(full)
				if err != nil {
					// a refusal is allowed for the documented reasons only: a retry that may not be
					// resized, nothing at or below the limit, or "one bridge required" with no bridge
					// in the permitted part; otherwise the events of [from, max] would never be certified
					bridgesInCut := 0
					for _, bb := range l.BridgeBlk {
						if bb <= maxBlk {
							bridgesInCut++
						}
					}
					legit := (l.Retry && !allowResize) || l.From > maxBlk || (requireBridge && bridgesInCut == 0)
					if !legit {
						r.Violation("C17:lastblock:refused-although-a-permitted-cut-exists", caseID, fmt.Sprintf("AdaptCertificate([%d,%d], max %d) refuses (%v) although the cut [%d,%d] is permitted", l.From, l.To, maxBlk, err, l.From, min(l.To, maxBlk)), sc)
						return
					}
					r.Eval(fmt.Sprintf("lim/refused/retry=%v/from-vs-max=%d", l.Retry, cmpU(l.From, maxBlk)))
					return
				}
				wantTo := min(l.To, maxBlk)
				if res.FromBlock != l.From {
					r.Violation("C17:lastblock:from-changed", caseID, fmt.Sprintf("from %d -> %d", l.From, res.FromBlock), sc)
				}
				if res.ToBlock != wantTo {
					r.Violation("C17:lastblock:to-not-largest-permitted", caseID, fmt.Sprintf("to=%d want %d", res.ToBlock, wantTo), sc)
				}
				c17CheckEvents(r, "lastblock", caseID, sc, bs, cs, res)
				lastVsMax := 9
				if l.Retry {
					lastVsMax = cmpU(l.LastTo, maxBlk)
				}
				r.Eval(fmt.Sprintf("lim/cut=%v/retry=%v/failed-cert-end-vs-max=%d/ev=%d", wantTo < l.To, l.Retry, lastVsMax, min(nb+nc, 3)))
			})
			// Range() on an arbitrary sub-range
			guard(r, caseID, sc, func() {
				full := &aggsendertypes.CertificateBuildParams{FromBlock: l.From, ToBlock: l.To, Bridges: bs, Claims: cs, CertificateType: 1}
				a := l.From + uint64(g.Intn(int(span)))
				b := a + uint64(g.Intn(int(l.To-a)+1))
				res, err := full.Range(a, b)
				if err != nil {
					r.Violation("C17:range:error", caseID, err.Error(), sc)
					return
				}
				if res.FromBlock != a || res.ToBlock != b {
					r.Violation("C17:range:bounds", caseID, fmt.Sprintf("Range(%d,%d) -> [%d,%d]", a, b, res.FromBlock, res.ToBlock), sc)
				}
				c17CheckEvents(r, "range", caseID, sc, bs, cs, res)
				r.Eval(fmt.Sprintf("range/front=%v/back=%v", a > l.From, b < l.To))
			})
		}
	})

	// ---- Gap ---------------------------------------------------------------------------------
	bnd := []uint64{0, 1, 2, 3, 4, 5, 1<<32 - 1, 1 << 32, 1<<32 + 1, 1<<64 - 3, 1<<64 - 2, 1<<64 - 1}
	cnt := 0
	for _, a := range bnd {
		for _, b := range bnd {
			for _, c := range bnd {
				for _, d := range bnd {
					if a <= b && c <= d {
						c17Gap(r, fmt.Sprintf("gap/bnd/%d/%d/%d/%d", a, b, c, d), a, b, c, d)
						cnt++
					}
				}
			}
		}
	}
	r.Set("gap_boundary_pairs_exhaustive", cnt)
	nGap := r.N(200_000, 20_000_000)
	parallel(workers, workers, func(w int) {
		g := rng(r, "gap", w)
		pick := func() uint64 {
			switch g.Intn(4) {
			case 0:
				return uint64(g.Intn(30))
			case 1:
				return g.Uint64()
			case 2:
				return ^uint64(0) - uint64(g.Intn(30))
			}
			return uint64(g.Intn(1000))
		}
		for i := 0; i < nGap/workers; i++ {
			a, b, c, d := pick(), pick(), pick(), pick()
			if a > b {
				a, b = b, a
			}
			if c > d {
				c, d = d, c
			}
			if g.Intn(3) == 0 { // touching / overlapping on purpose
				c = b + uint64(g.Intn(3)) - 1
				if c > d {
					d = c
				}
			}
			c17Gap(r, fmt.Sprintf("gap/%d/%d", w, i), a, b, c, d)
		}
	})
	r.Sample(map[string]any{"kind": "gap", "a": [2]uint64{0, 5}, "b": [2]uint64{6, 9}, "gap": "empty (touching)"})
	finish(t, r, 30, "size/cut=true*", "lim/cut=true*", "gap/touch*", "gap/apart*")
}

func sortU64(s []uint64) {
	for a := 1; a < len(s); a++ {
		for b := a; b > 0 && s[b] < s[b-1]; b-- {
			s[b], s[b-1] = s[b-1], s[b]
		}
	}
}

func c17CheckEvents(r *mon.Run, kind, caseID string, sc any, bs []bridgesync.Bridge, cs []bridgesync.Claim, res *aggsendertypes.CertificateBuildParams) {
	var wb []bridgesync.Bridge
	var wc []bridgesync.Claim
	for _, b := range bs {
		if b.BlockNum >= res.FromBlock && b.BlockNum <= res.ToBlock {
			wb = append(wb, b)
		}
	}
	for _, c := range cs {
		if c.BlockNum >= res.FromBlock && c.BlockNum <= res.ToBlock {
			wc = append(wc, c)
		}
	}
	ok := len(wb) == len(res.Bridges) && len(wc) == len(res.Claims)
	if ok {
		for i := range wb {
			if wb[i].BlockNum != res.Bridges[i].BlockNum || wb[i].BlockPos != res.Bridges[i].BlockPos || wb[i].DepositCount != res.Bridges[i].DepositCount {
				ok = false
			}
		}
		for i := range wc {
			if wc[i].BlockNum != res.Claims[i].BlockNum || wc[i].BlockPos != res.Claims[i].BlockPos {
				ok = false
			}
		}
	}
	if !ok {
		r.Violation("C17:"+kind+":events-dropped-duplicated-or-reordered", caseID,
			fmt.Sprintf("range [%d,%d]: got %d bridges / %d claims, kept blocks hold %d / %d (or order differs)",
				res.FromBlock, res.ToBlock, len(res.Bridges), len(res.Claims), len(wb), len(wc)), sc)
	}
}

func c17CheckCut(r *mon.Run, kind, caseID string, l c17Layout, bs []bridgesync.Bridge, cs []bridgesync.Claim,
	ct aggsendertypes.CertificateType, res *aggsendertypes.CertificateBuildParams) {
	if res.FromBlock != l.From {
		r.Violation("C17:size:from-changed", caseID, fmt.Sprintf("from %d -> %d", l.From, res.FromBlock), l)
	}
	// largest t with size(prefix<=t) <= max, or From when even one block exceeds
	wantTo := l.From
	if l.Max == 0 {
		wantTo = l.To
	} else {
		for t := l.To; t >= l.From; t-- {
			if c17Size(bs, cs, ct, t) <= l.Max {
				wantTo = t
				break
			}
			if t == l.From {
				break
			}
		}
	}
	// monotone size
	prev := uint(0)
	for t := l.From; t <= l.To; t++ {
		s := c17Size(bs, cs, ct, t)
		if s < prev {
			r.Violation("C17:size:estimate-not-monotone", caseID, fmt.Sprintf("size(..%d)=%d < size(..%d)=%d", t, s, t-1, prev), l)
		}
		prev = s
	}
	if res.ToBlock != wantTo {
		r.Violation("C17:size:to-not-largest-permitted", caseID, fmt.Sprintf("to=%d, largest permitted=%d (max=%d)", res.ToBlock, wantTo, l.Max), l)
	}
	c17CheckEvents(r, kind, caseID, l, bs, cs, res)
	over := l.Max != 0 && res.EstimatedSize() > l.Max
	if over && res.FromBlock != res.ToBlock {
		r.Violation("C17:size:limit-exceeded-by-multi-block", caseID, fmt.Sprintf("size %d > max %d with range [%d,%d]", res.EstimatedSize(), l.Max, res.FromBlock, res.ToBlock), l)
	}
	r.Eval(fmt.Sprintf("size/cut=%v/over=%v/ev=%d/retry=%v/type=%d", res.ToBlock < l.To, over, min(len(bs)+len(cs), 3), l.Retry, l.Type))
	r.Sample(map[string]any{"layout": l, "result": [2]uint64{res.FromBlock, res.ToBlock}, "size": res.EstimatedSize()})
}

func c17Gap(r *mon.Run, caseID string, a, b, c, d uint64) {
	if !r.Only(caseID) {
		return
	}
	sc := map[string]any{"x": [2]uint64{a, b}, "y": [2]uint64{c, d}}
	guard(r, caseID, sc, func() {
		x := aggsendertypes.NewBlockRange(a, b)
		y := aggsendertypes.NewBlockRange(c, d)
		got := x.Gap(y)
		// reference in arbitrary precision
		A, B, C, D := new(big.Int).SetUint64(a), new(big.Int).SetUint64(b), new(big.Int).SetUint64(c), new(big.Int).SetUint64(d)
		one := big.NewInt(1)
		var lo, hi *big.Int // blocks strictly between
		rel := "touch"
		switch {
		case new(big.Int).Add(B, one).Cmp(C) < 0: // b+1 < c
			lo, hi = new(big.Int).Add(B, one), new(big.Int).Sub(C, one)
			rel = "apart"
		case new(big.Int).Add(D, one).Cmp(A) < 0:
			lo, hi = new(big.Int).Add(D, one), new(big.Int).Sub(A, one)
			rel = "apart"
		default:
			if B.Cmp(C) >= 0 && D.Cmp(A) >= 0 {
				rel = "overlap"
			}
		}
		if lo == nil {
			if !got.IsEmpty() {
				r.Violation("C17:gap:reported-between-touching-or-overlapping", caseID, fmt.Sprintf("[%d,%d].Gap([%d,%d]) = [%d,%d]", a, b, c, d, got.FromBlock, got.ToBlock), sc)
			}
		} else if got.FromBlock != lo.Uint64() || got.ToBlock != hi.Uint64() {
			r.Violation("C17:gap:wrong-blocks", caseID, fmt.Sprintf("[%d,%d].Gap([%d,%d]) = [%d,%d] want [%s,%s]", a, b, c, d, got.FromBlock, got.ToBlock, lo, hi), sc)
		}
		ec := "mid"
		if a == 0 || c == 0 {
			ec = "zero"
		} else if b == ^uint64(0) || d == ^uint64(0) {
			ec = "max"
		}
		r.Eval("gap/" + rel + "/" + ec)
	})
}

func cmpU(a, b uint64) int {
	switch {
	case a < b:
		return -1
	case a > b:
		return 1
	}
	return 0
}
