package checks

import (
	"bytes"
	"context"
	"encoding/json"
	"errors"
	"fmt"
	"math/big"
	"math/rand"
	"runtime"
	"testing"

	nodetypes "buf.build/gen/go/agglayer/agglayer/protocolbuffers/go/agglayer/node/types/v1"
	interop "buf.build/gen/go/agglayer/interop/protocolbuffers/go/agglayer/interop/types/v1"
	agglayergrpc "github.com/agglayer/aggkit/agglayer/grpc"
	agglayertypes "github.com/agglayer/aggkit/agglayer/types"
	"github.com/ethereum/go-ethereum/common"
	"github.com/ethereum/go-ethereum/crypto"
	"verifharness/fakes"
	"verifharness/mon"
	"verifharness/ref"
	"verifharness/world"
)

// C10 — the signature commits to exactly what is sent and stored.

// ---- commitments recomputed from the protobuf message (what the Agglayer receives) -------------

func pbHash(b *interop.FixedBytes32) common.Hash {
	if b == nil {
		return common.Hash{}
	}
	return common.BytesToHash(b.Value)
}

func pbExitHash(be *interop.BridgeExit) common.Hash {
	lt := byte(0)
	if be.LeafType == interop.LeafType_LEAF_TYPE_MESSAGE {
		lt = 1
	}
	var on, dn [4]byte
	o, d := be.TokenInfo.OriginNetwork, be.DestNetwork
	on[0], on[1], on[2], on[3] = byte(o>>24), byte(o>>16), byte(o>>8), byte(o)
	dn[0], dn[1], dn[2], dn[3] = byte(d>>24), byte(d>>16), byte(d>>8), byte(d)
	amt := make([]byte, 32)
	if be.Amount != nil {
		copy(amt, be.Amount.Value)
	}
	mh := crypto.Keccak256(nil)
	if be.Metadata != nil {
		mh = be.Metadata.Value
	}
	return crypto.Keccak256Hash([]byte{lt}, on[:], be.TokenInfo.OriginTokenAddress.Value, dn[:], be.DestAddress.Value, amt, mh)
}

func le32(v []byte) []byte {
	out := make([]byte, 32)
	for i := 0; i < 32 && i < len(v); i++ {
		out[i] = v[len(v)-1-i]
	}
	return out
}

func pbPPCommitment(c *nodetypes.Certificate) common.Hash {
	var parts [][]byte
	for _, ibe := range c.ImportedBridgeExits {
		parts = append(parts, crypto.Keccak256(le32(ibe.GlobalIndex.Value)))
	}
	return crypto.Keccak256Hash(c.NewLocalExitRoot.Value, crypto.Keccak256(parts...))
}

func pbFEPCommitment(c *nodetypes.Certificate) common.Hash {
	var chunks []byte
	for _, ibe := range c.ImportedBridgeExits {
		chunks = append(chunks, le32(ibe.GlobalIndex.Value)...)
		eh := pbExitHash(ibe.BridgeExit)
		chunks = append(chunks, eh[:]...)
	}
	var hl [8]byte
	for i := 0; i < 8; i++ {
		hl[i] = byte(c.Height >> (8 * uint(i)))
	}
	params := crypto.Keccak256(nil)
	if ad := c.AggchainData; ad != nil {
		if g := ad.GetGeneric(); g != nil && g.AggchainParams != nil {
			params = g.AggchainParams.Value
		}
	}
	return crypto.Keccak256Hash(c.NewLocalExitRoot.Value, crypto.Keccak256(chunks), hl[:], params)
}

// c10Compare checks that every field covered by the commitment / identity is identical in the
// certificate, in the protobuf message built by the real gRPC client, and in the JSON round trip
// c10Wire is one long-lived real gRPC client (like the node's) in front of a capturing submission
// service that can be made to fail: what a client sends must not depend on its earlier calls
type c10Wire struct {
	sub *fakes.SubmissionCapture
	cl  *agglayergrpc.AgglayerGRPCClient
}

func newC10Wire() *c10Wire {
	sub := &fakes.SubmissionCapture{}
	return &c10Wire{sub: sub, cl: agglayergrpc.VerifNewAgglayerGRPCClient(grpcCfg(), nil, nil, sub)}
}

func c10Compare(w *c10Wire, cert *agglayertypes.Certificate, label string, failFirst bool) (string, string) {
	sub, cl := w.sub, w.cl
	if failFirst {
		// the Agglayer is unavailable for one attempt; the same client then sends again
		sub.Err = errors.New("agglayer unavailable (injected)")
		_, _ = cl.SendCertificate(context.Background(), cert)
		sub.Err = nil
		label += " (second attempt after a failed submission through the same client)"
	}
	if _, err := cl.SendCertificate(context.Background(), cert); err != nil {
		return "C10:wire-conversion-error", label + ": " + err.Error()
	}
	pb := sub.Last().Certificate
	sub.Reset()
	if pb.NetworkId != cert.NetworkID || pb.Height != cert.Height || pbHash(pb.PrevLocalExitRoot) != cert.PrevLocalExitRoot || pbHash(pb.NewLocalExitRoot) != cert.NewLocalExitRoot ||
		pbHash(pb.Metadata) != cert.Metadata || pb.GetL1InfoTreeLeafCount() != cert.L1InfoTreeLeafCount || len(pb.BridgeExits) != len(cert.BridgeExits) || len(pb.ImportedBridgeExits) != len(cert.ImportedBridgeExits) {
		return "C10:wire:header-field-altered", label + ": network/height/LERs/metadata/leaf count/#exits differ between the certificate and the wire message"
	}
	for i, be := range cert.BridgeExits {
		if pbExitHash(pb.BridgeExits[i]) != refExitHash(be) {
			return "C10:wire:bridge-exit-altered", fmt.Sprintf("%s: bridge exit %d: exit hash of the wire message differs from the certificate's (%+v)", label, i, be)
		}
	}
	for i, ibe := range cert.ImportedBridgeExits {
		p := pb.ImportedBridgeExits[i]
		if pbExitHash(p.BridgeExit) != refExitHash(ibe.BridgeExit) {
			return "C10:wire:imported-exit-altered", fmt.Sprintf("%s: imported exit %d: exit hash differs on the wire", label, i)
		}
		want := ref.GlobalIndex(ibe.GlobalIndex.MainnetFlag, ibe.GlobalIndex.RollupIndex, ibe.GlobalIndex.LeafIndex)
		if new(big.Int).SetBytes(p.GlobalIndex.Value).Cmp(want) != 0 {
			return "C10:wire:global-index-altered", fmt.Sprintf("%s: imported exit %d: global index differs on the wire", label, i)
		}
		switch cd := ibe.ClaimData.(type) {
		case *agglayertypes.ClaimFromMainnnet:
			pm := p.GetMainnet()
			if pm == nil || pbHash(pm.ProofLeafMer.Root) != cd.ProofLeafMER.Root || pbHash(pm.ProofGerL1Root.Root) != cd.ProofGERToL1Root.Root ||
				pm.L1Leaf.L1InfoTreeIndex != cd.L1Leaf.L1InfoTreeIndex || pbHash(pm.L1Leaf.Mer) != cd.L1Leaf.MainnetExitRoot || pbHash(pm.L1Leaf.Rer) != cd.L1Leaf.RollupExitRoot ||
				pbHash(pm.L1Leaf.Inner.GlobalExitRoot) != cd.L1Leaf.Inner.GlobalExitRoot || pbHash(pm.L1Leaf.Inner.BlockHash) != cd.L1Leaf.Inner.BlockHash || pm.L1Leaf.Inner.Timestamp != cd.L1Leaf.Inner.Timestamp {
				return "C10:wire:claim-data-altered", fmt.Sprintf("%s: imported exit %d: mainnet claim data differs on the wire", label, i)
			}
			for k := 0; k < 32; k++ {
				if pbHash(pm.ProofLeafMer.Siblings[k]) != cd.ProofLeafMER.Proof[k] || pbHash(pm.ProofGerL1Root.Siblings[k]) != cd.ProofGERToL1Root.Proof[k] {
					return "C10:wire:claim-proof-altered", fmt.Sprintf("%s: imported exit %d: proof sibling %d differs on the wire", label, i, k)
				}
			}
		case *agglayertypes.ClaimFromRollup:
			pr := p.GetRollup()
			if pr == nil || pbHash(pr.ProofLeafLer.Root) != cd.ProofLeafLER.Root || pbHash(pr.ProofLerRer.Root) != cd.ProofLERToRER.Root || pbHash(pr.ProofGerL1Root.Root) != cd.ProofGERToL1Root.Root ||
				pr.L1Leaf.L1InfoTreeIndex != cd.L1Leaf.L1InfoTreeIndex || pbHash(pr.L1Leaf.Mer) != cd.L1Leaf.MainnetExitRoot || pbHash(pr.L1Leaf.Rer) != cd.L1Leaf.RollupExitRoot ||
				pbHash(pr.L1Leaf.Inner.GlobalExitRoot) != cd.L1Leaf.Inner.GlobalExitRoot || pbHash(pr.L1Leaf.Inner.BlockHash) != cd.L1Leaf.Inner.BlockHash || pr.L1Leaf.Inner.Timestamp != cd.L1Leaf.Inner.Timestamp {
				return "C10:wire:claim-data-altered", fmt.Sprintf("%s: imported exit %d: rollup claim data differs on the wire", label, i)
			}
			for k := 0; k < 32; k++ {
				if pbHash(pr.ProofLeafLer.Siblings[k]) != cd.ProofLeafLER.Proof[k] || pbHash(pr.ProofLerRer.Siblings[k]) != cd.ProofLERToRER.Proof[k] || pbHash(pr.ProofGerL1Root.Siblings[k]) != cd.ProofGERToL1Root.Proof[k] {
					return "C10:wire:claim-proof-altered", fmt.Sprintf("%s: imported exit %d: proof sibling %d differs on the wire", label, i, k)
				}
			}
		}
	}
	// signature + commitment recomputed from the wire message
	switch ad := cert.AggchainData.(type) {
	case *agglayertypes.AggchainDataSignature:
		if !bytes.Equal(pb.AggchainData.GetSignature().GetValue(), ad.Signature) {
			return "C10:wire:signature-altered", label + ": signature bytes differ on the wire"
		}
		if pbPPCommitment(pb) != cert.PPHashToSign() {
			return "C10:commitment-differs-between-certificate-and-wire", label + ": PP commitment recomputed from the wire message differs from the certificate's"
		}
	case *agglayertypes.AggchainDataProof:
		g := pb.AggchainData.GetGeneric()
		if g == nil || !bytes.Equal(g.GetSignature().GetValue(), ad.Signature) || pbHash(g.AggchainParams) != ad.AggchainParams || !bytes.Equal(g.GetSp1Stark().GetProof(), ad.Proof) {
			return "C10:wire:aggchain-data-altered", label + ": aggchain proof data / signature differ on the wire"
		}
		if pbFEPCommitment(pb) != cert.FEPHashToSign() {
			return "C10:commitment-differs-between-certificate-and-wire", label + ": FEP commitment recomputed from the wire message differs from the certificate's"
		}
	}
	// JSON round trip (the node's stored copy)
	raw, err := json.Marshal(cert)
	if err != nil {
		return "C10:json-marshal-error", label + ": " + err.Error()
	}
	var back agglayertypes.Certificate
	if err := json.Unmarshal(raw, &back); err != nil {
		return "C10:json-unmarshal-error", label + ": " + err.Error()
	}
	if back.Hash() != cert.Hash() || back.PPHashToSign() != cert.PPHashToSign() || back.FEPHashToSign() != cert.FEPHashToSign() ||
		back.NetworkID != cert.NetworkID || back.Height != cert.Height || back.Metadata != cert.Metadata || back.L1InfoTreeLeafCount != cert.L1InfoTreeLeafCount {
		return "C10:stored-copy-differs", label + ": the certificate read back from its JSON form has a different identity / commitment"
	}
	for i := range cert.BridgeExits {
		if refExitHash(back.BridgeExits[i]) != refExitHash(cert.BridgeExits[i]) {
			return "C10:stored-copy-differs", fmt.Sprintf("%s: bridge exit %d differs after the JSON round trip", label, i)
		}
	}
	return "", ""
}

// ---- random certificates and single-field perturbations ------------------------------------------

func randMerkleProof(g *rand.Rand) *agglayertypes.MerkleProof {
	p := &agglayertypes.MerkleProof{Root: world.RandHash(g)}
	for i := range p.Proof {
		if g.Intn(3) != 0 {
			p.Proof[i] = world.RandHash(g)
		}
	}
	return p
}

func randL1Leaf(g *rand.Rand) *agglayertypes.L1InfoTreeLeaf {
	return &agglayertypes.L1InfoTreeLeaf{L1InfoTreeIndex: g.Uint32(), RollupExitRoot: world.RandHash(g), MainnetExitRoot: world.RandHash(g),
		Inner: &agglayertypes.L1InfoTreeLeafInner{GlobalExitRoot: world.RandHash(g), BlockHash: world.RandHash(g), Timestamp: g.Uint64()}}
}

func randBridgeExit(g *rand.Rand) *agglayertypes.BridgeExit {
	be := &agglayertypes.BridgeExit{LeafType: agglayertypes.LeafType(g.Intn(2)), TokenInfo: &agglayertypes.TokenInfo{OriginNetwork: g.Uint32(), OriginTokenAddress: world.RandAddr(g)},
		DestinationNetwork: g.Uint32(), DestinationAddress: world.RandAddr(g), Amount: world.RandAmount(g)}
	if g.Intn(3) != 0 {
		be.Metadata = crypto.Keccak256(world.RandMetadata(g))
	}
	if g.Intn(10) == 0 {
		be.Amount = nil
	}
	return be
}

func randCertificate(g *rand.Rand, fep bool) *agglayertypes.Certificate {
	c := &agglayertypes.Certificate{NetworkID: g.Uint32(), Height: g.Uint64() >> uint(g.Intn(64)), PrevLocalExitRoot: world.RandHash(g), NewLocalExitRoot: world.RandHash(g),
		Metadata: world.RandHash(g), L1InfoTreeLeafCount: g.Uint32()}
	for k := g.Intn(21); k > 0; k-- {
		c.BridgeExits = append(c.BridgeExits, randBridgeExit(g))
	}
	for k := g.Intn(11); k > 0; k-- {
		ibe := &agglayertypes.ImportedBridgeExit{BridgeExit: randBridgeExit(g)}
		if g.Intn(2) == 0 {
			ibe.GlobalIndex = &agglayertypes.GlobalIndex{MainnetFlag: true, LeafIndex: randU32(g)}
			if g.Intn(8) == 0 {
				// what DecodeGlobalIndex yields for an on-chain index with the mainnet bit and left-over
				// rollup bits: every encoder must normalise it the same way
				ibe.GlobalIndex.RollupIndex = 1 + uint32(g.Intn(1<<20))
			}
			ibe.ClaimData = &agglayertypes.ClaimFromMainnnet{ProofLeafMER: randMerkleProof(g), ProofGERToL1Root: randMerkleProof(g), L1Leaf: randL1Leaf(g)}
		} else {
			ibe.GlobalIndex = &agglayertypes.GlobalIndex{RollupIndex: randU32(g), LeafIndex: randU32(g)}
			ibe.ClaimData = &agglayertypes.ClaimFromRollup{ProofLeafLER: randMerkleProof(g), ProofLERToRER: randMerkleProof(g), ProofGERToL1Root: randMerkleProof(g), L1Leaf: randL1Leaf(g)}
		}
		c.ImportedBridgeExits = append(c.ImportedBridgeExits, ibe)
	}
	sig := make([]byte, 65)
	g.Read(sig)
	if fep {
		c.AggchainData = &agglayertypes.AggchainDataProof{Proof: []byte{1, 2}, Version: "v", Vkey: []byte{3}, AggchainParams: world.RandHash(g), Context: map[string][]byte{"a": {1}}, Signature: sig}
		c.CustomChainData = []byte{9}
	} else {
		c.AggchainData = &agglayertypes.AggchainDataSignature{Signature: sig}
	}
	return c
}

type c10Commit struct{ id, pp, fep common.Hash }

func commitsOf(c *agglayertypes.Certificate) c10Commit {
	return c10Commit{c.Hash(), c.PPHashToSign(), c.FEPHashToSign()}
}

func flipHash(h *common.Hash) func() {
	old := *h
	h[7] ^= 0x40
	return func() { *h = old }
}

// c10Perturbations returns, for a certificate, a list of (name, which commitments must change,
// apply) single-field perturbations; apply returns the undo function
func c10Perturbations(c *agglayertypes.Certificate, g *rand.Rand) []struct {
	name        string
	id, pp, fep bool
	apply       func() func()
} {
	type pt = struct {
		name        string
		id, pp, fep bool
		apply       func() func()
	}
	out := []pt{
		{"network_id", true, false, false, func() func() { c.NetworkID ^= 1; return func() { c.NetworkID ^= 1 } }},
		{"height", true, false, true, func() func() { c.Height ^= 1 << uint(g.Intn(60)); h := c.Height; _ = h; return nil }},
		{"prev_local_exit_root", true, false, false, func() func() { return flipHash(&c.PrevLocalExitRoot) }},
		{"new_local_exit_root", true, true, true, func() func() { return flipHash(&c.NewLocalExitRoot) }},
	}
	if ad, ok := c.AggchainData.(*agglayertypes.AggchainDataProof); ok {
		out = append(out, pt{"aggchain_params", false, false, true, func() func() { return flipHash(&ad.AggchainParams) }})
	}
	if n := len(c.BridgeExits); n > 0 {
		be := c.BridgeExits[g.Intn(n)]
		out = append(out,
			pt{"exit.leaf_type", true, false, false, func() func() { be.LeafType ^= 1; return func() { be.LeafType ^= 1 } }},
			pt{"exit.origin_network", true, false, false, func() func() { be.TokenInfo.OriginNetwork ^= 4; return func() { be.TokenInfo.OriginNetwork ^= 4 } }},
			pt{"exit.origin_token", true, false, false, func() func() { be.TokenInfo.OriginTokenAddress[3] ^= 1; return func() { be.TokenInfo.OriginTokenAddress[3] ^= 1 } }},
			pt{"exit.dest_network", true, false, false, func() func() { be.DestinationNetwork ^= 2; return func() { be.DestinationNetwork ^= 2 } }},
			pt{"exit.dest_address", true, false, false, func() func() { be.DestinationAddress[9] ^= 8; return func() { be.DestinationAddress[9] ^= 8 } }},
			pt{"exit.amount", true, false, false, func() func() {
				old := be.Amount
				if old == nil {
					be.Amount = big.NewInt(1)
				} else {
					be.Amount = new(big.Int).Xor(old, new(big.Int).Lsh(big.NewInt(1), uint(g.Intn(250))))
				}
				return func() { be.Amount = old }
			}},
			pt{"exit.metadata", true, false, false, func() func() {
				old := be.Metadata
				be.Metadata = crypto.Keccak256(append([]byte{1}, old...))
				return func() { be.Metadata = old }
			}},
		)
	}
	if n := len(c.ImportedBridgeExits); n > 0 {
		k := g.Intn(n)
		ibe := c.ImportedBridgeExits[k]
		out = append(out,
			pt{fmt.Sprintf("imported[%d/%d].global_index.leaf", k, n), true, true, true, func() func() { ibe.GlobalIndex.LeafIndex ^= 1 << uint(g.Intn(32)); return nil }},
			pt{fmt.Sprintf("imported[%d/%d].exit.amount", k, n), true, false, true, func() func() {
				old := ibe.BridgeExit.Amount
				if old == nil {
					ibe.BridgeExit.Amount = big.NewInt(7)
				} else {
					ibe.BridgeExit.Amount = new(big.Int).Xor(old, new(big.Int).Lsh(big.NewInt(1), uint(g.Intn(250))))
				}
				return func() { ibe.BridgeExit.Amount = old }
			}},
			pt{fmt.Sprintf("imported[%d/%d].exit.dest_address", k, n), true, false, true, func() func() {
				ibe.BridgeExit.DestinationAddress[0] ^= 1
				return func() { ibe.BridgeExit.DestinationAddress[0] ^= 1 }
			}},
			pt{fmt.Sprintf("imported[%d/%d].exit.origin_token", k, n), true, false, true, func() func() {
				ibe.BridgeExit.TokenInfo.OriginTokenAddress[19] ^= 1
				return func() { ibe.BridgeExit.TokenInfo.OriginTokenAddress[19] ^= 1 }
			}},
		)
		if !ibe.GlobalIndex.MainnetFlag {
			out = append(out, pt{fmt.Sprintf("imported[%d/%d].global_index.rollup", k, n), true, true, true, func() func() { ibe.GlobalIndex.RollupIndex ^= 1 << uint(g.Intn(32)); return nil }})
		}
		switch cd := ibe.ClaimData.(type) {
		case *agglayertypes.ClaimFromMainnnet:
			out = append(out,
				pt{"imported.claim.proof_leaf_mer", true, false, false, func() func() { return flipHash(&cd.ProofLeafMER.Proof[g.Intn(32)]) }},
				pt{"imported.claim.proof_ger_l1root.root", true, false, false, func() func() { return flipHash(&cd.ProofGERToL1Root.Root) }},
				pt{"imported.claim.l1leaf.ger", true, false, false, func() func() { return flipHash(&cd.L1Leaf.Inner.GlobalExitRoot) }},
				pt{"imported.claim.l1leaf.timestamp", true, false, false, func() func() { cd.L1Leaf.Inner.Timestamp ^= 1; return func() { cd.L1Leaf.Inner.Timestamp ^= 1 } }},
			)
		case *agglayertypes.ClaimFromRollup:
			out = append(out,
				pt{"imported.claim.proof_leaf_ler", true, false, false, func() func() { return flipHash(&cd.ProofLeafLER.Proof[g.Intn(32)]) }},
				pt{"imported.claim.proof_ler_rer.root", true, false, false, func() func() { return flipHash(&cd.ProofLERToRER.Root) }},
				pt{"imported.claim.l1leaf.blockhash", true, false, false, func() func() { return flipHash(&cd.L1Leaf.Inner.BlockHash) }},
			)
		}
	}
	return out
}

func TestC10(t *testing.T) {
	r := mon.Start("C10", "exploration")
	r.Rule("(a) certificates built, signed, submitted and stored by the real flows (PP and aggchain-prover flow, recording signer) in PRNG walks with failed submissions and InError retries: the hash handed to the signer equals the commitment recomputed " +
		"from the received certificate, the signature recovers to the signer, the wire message built by the real gRPC client and the JSON stored by the real storage carry every covered field unchanged; " +
		"(b) PRNG certificates (0-20 exits, 0-10 imported exits, nil / 0 / max amounts, empty metadata, both claim kinds, both schemes): wire + JSON comparison and single-field perturbations of every covered field; " +
		"signature = (scheme, #imported class, perturbed field) resp. walk classes")
	r.Assume("covered fields: PP commitment = new LER + every global index; FEP commitment = also imported exit hashes, height, aggchain params; identity = network, height, both LERs, every exit / imported exit field, claim data")
	workers := runtime.NumCPU()

	// ---- (a) real flows ---------------------------------------------------------------------------
	alphabet := []int{stL2Events, stL2Events, stL2Empty, stEpoch, stEpoch, stStatus, stSettle, stInError, stFailBefore, stL1Advance}
	cfgs := []asNodeCfg{{RetryAfterInError: true, ExternalPP: true}, {RetryAfterInError: false, ExternalPP: true}, {RetryAfterInError: true, FEP: true}, {RetryAfterInError: true}}
	nWalks := r.N(100, 2500)
	parallel(nWalks, workers, func(i int) {
		caseID := fmt.Sprintf("walk/%d", i)
		if !r.Only(caseID) {
			return
		}
		g := rng(r, "c10walk", i)
		cfg := cfgs[g.Intn(len(cfgs))]
		guard(r, caseID, map[string]any{"config": cfg}, func() {
			a, err := newASRun(r, caseID, g, cfg, "C10")
			if err != nil {
				r.Inconclusive("cannot build the aggsender world: " + err.Error())
				return
			}
			defer a.close()
			seen := 0
			wire := newC10Wire()
			for st := 0; st < 40+g.Intn(40) && !a.dead; st++ {
				a.step(alphabet[g.Intn(len(alphabet))])
				a.m.mu.Lock()
				certs := append([]*mCert{}, a.m.certs[seen:]...)
				seen = len(a.m.certs)
				a.m.mu.Unlock()
				for _, mc := range certs {
					label := fmt.Sprintf("certificate #%d (height %d)", mc.Seq, mc.Cert.Height)
					// (1) hash handed to the signer
					if a.node != nil && a.node.signer != nil {
						var want common.Hash
						if cfg.FEP {
							want = refFEPCommitment(mc.Cert, mc.Cert.AggchainData.(*agglayertypes.AggchainDataProof).AggchainParams)
						} else {
							want = refPPCommitment(mc.Cert)
						}
						if got, ok := a.node.signer.last(); !ok || got != want {
							a.violate("C10:signed-hash-is-not-the-commitment-of-the-final-content", fmt.Sprintf("%s: the signer was handed %s, the commitment of what was sent is %s", label, got.Hex()[:10], want.Hex()[:10]))
						}
					}
					// (2)+(3) wire message and JSON form
					if sig, what := c10Compare(wire, mc.Cert, label, g.Intn(3) == 0); sig != "" {
						a.violate(sig, what)
					}
					// (3b) the node's own stored copy
					if a.node != nil {
						if stored, err := a.node.as.VerifStorage().GetCertificateByHeight(mc.Cert.Height); err == nil && stored != nil && stored.Header.CertificateID == mc.ID && stored.SignedCertificate != nil {
							var back agglayertypes.Certificate
							if err := json.Unmarshal([]byte(*stored.SignedCertificate), &back); err != nil {
								a.violate("C10:stored-copy-unreadable", label+": "+err.Error())
							} else if back.Hash() != mc.Cert.Hash() || back.PPHashToSign() != mc.Cert.PPHashToSign() || back.FEPHashToSign() != mc.Cert.FEPHashToSign() {
								a.violate("C10:stored-copy-differs", label+": the stored certificate has a different identity / commitment than the one sent")
							}
							a.r.Add("stored_copies_compared", 1)
						}
					}
					r.Eval(fmt.Sprintf("real/fep=%v/imported=%d/exits=%d", cfg.FEP, min(len(mc.Cert.ImportedBridgeExits), 3), min(len(mc.Cert.BridgeExits), 3)))
					if len(mc.Cert.ImportedBridgeExits) > 0 && len(mc.Cert.BridgeExits) > 0 {
						r.Sample(map[string]any{"plane": "real flow", "config": cfg, "certificate": label, "bridge_exits": len(mc.Cert.BridgeExits), "imported_bridge_exits": len(mc.Cert.ImportedBridgeExits),
							"commitment_recomputed_from_wire": pbCommitmentHex(mc.Cert, cfg.FEP), "signer_recovered": true, "stored_copy_compared": a.node != nil})
					}
				}
			}
			a.finish()
		})
	})

	// ---- (b) random certificates: conversions and perturbations --------------------------------------
	nRand := r.N(500, 20000)
	var perts int64
	parallel(workers, workers, func(wk int) {
		g := rng(r, "c10rand", wk)
		wire := newC10Wire()
		for i := 0; i < nRand/workers; i++ {
			caseID := fmt.Sprintf("rand/%d/%d", wk, i)
			if !r.Only(caseID) {
				continue
			}
			fep := g.Intn(2) == 0
			c := randCertificate(g, fep)
			sc := map[string]any{"fep": fep, "exits": len(c.BridgeExits), "imported": len(c.ImportedBridgeExits)}
			guard(r, caseID, sc, func() {
				if sig, what := c10Compare(wire, c, "random certificate", g.Intn(4) == 0); sig != "" {
					raw, _ := json.Marshal(c)
					sc["certificate"] = json.RawMessage(raw)
					r.Violation(sig, caseID, what, sc)
					return
				}
				base := commitsOf(c)
				if i < 2 {
					var names []string
					for _, p := range c10Perturbations(c, g) {
						names = append(names, p.name)
					}
					r.Sample(map[string]any{"plane": "random certificate", "fep": fep, "exits": len(c.BridgeExits), "imported": len(c.ImportedBridgeExits), "fields_perturbed": names})
				}
				for _, p := range c10Perturbations(c, g) {
					saved, _ := json.Marshal(c)
					undo := p.apply()
					now := commitsOf(c)
					bad := ""
					if p.id && now.id == base.id {
						bad = "identity (Certificate.Hash)"
					}
					if p.pp && !fep && now.pp == base.pp {
						bad = "PP commitment"
					}
					if p.fep && fep && now.fep == base.fep {
						bad = "FEP commitment"
					}
					if bad != "" {
						sc["certificate_before"] = json.RawMessage(saved)
						r.Violation("C10:perturbation-not-covered:"+fieldClass(p.name), caseID, fmt.Sprintf("changing %s does not change the %s (fep=%v, %d imported exits)", p.name, bad, fep, len(c.ImportedBridgeExits)), sc)
						return
					}
					if undo != nil {
						undo()
					} else {
						// perturbations without undo are re-based
						base = now
					}
					if undo != nil && commitsOf(c) != base {
						r.Inconclusive("perturbation undo failed for " + p.name)
						return
					}
					perts++
					r.Eval(fmt.Sprintf("pert/fep=%v/imported=%d/%s", fep, min(len(c.ImportedBridgeExits), 3), fieldClass(p.name)))
				}
			})
		}
	})
	r.Set("perturbations", int(perts))
	finish(t, r, r.N(40, 60), "real/fep=true*", "real/fep=false*", "pert/fep=true*", "pert/fep=false*")
}

func fieldClass(name string) string {
	// strip the [k/n] position
	out := []byte{}
	skip := false
	for i := 0; i < len(name); i++ {
		switch name[i] {
		case '[':
			skip = true
		case ']':
			skip = false
		default:
			if !skip {
				out = append(out, name[i])
			}
		}
	}
	return string(out)
}

func pbCommitmentHex(c *agglayertypes.Certificate, fep bool) string {
	if fep {
		if ad, ok := c.AggchainData.(*agglayertypes.AggchainDataProof); ok {
			return refFEPCommitment(c, ad.AggchainParams).Hex()
		}
	}
	return refPPCommitment(c).Hex()
}
