package checks

import (
	"context"
	"errors"
	"fmt"
	"runtime"
	"strings"
	"testing"

	"github.com/agglayer/aggkit/bridgesync"
	"github.com/agglayer/aggkit/l1infotreesync"
	aggsync "github.com/agglayer/aggkit/sync"
	"github.com/ethereum/go-ethereum/common"
	"verifharness/mon"
	"verifharness/world"
)

// C14 — a syncer that detects an inconsistency fails stop (store level; the driver level
// "stops advancing" scenarios live in c14_driver_test.go).

func isHalted(s *store) bool {
	switch f := s.Facade.(type) {
	case *bridgesync.BridgeSync:
		return f.VerifIsHalted()
	case *l1infotreesync.L1InfoTreeSync:
		return f.VerifIsHalted()
	}
	return false
}

// c14HaltingBlock crafts a block that must make the store detect an inconsistency
func c14HaltingBlock(h *history, mode int, forceDC ...uint32) (aggsync.Block, string) {
	g := h.g
	num := h.lastNum() + 1 + uint64(g.Intn(3))
	b := aggsync.Block{Num: num, Hash: world.BlockHash(h.salt, num)}
	switch h.kind {
	case "bridge":
		next := uint32(len(world.BridgesOf(h.blocks)))
		var dc uint32
		var why string
		if len(forceDC) > 0 {
			bad := world.RandBridge(g, forceDC[0])
			bad.BlockNum, bad.BlockPos = num, 0
			b.Events = append(b.Events, bridgesync.Event{Bridge: bad})
			return b, "deposit-count-gap-to-the-count-before-a-reorg"
		}
		switch mode % 3 {
		case 0:
			dc, why = next+1, "gap+1"
		case 1:
			dc, why = next+2+uint32(g.Intn(1000)), "gap+many"
		default:
			if next == 0 {
				dc, why = 1, "gap+1"
			} else {
				dc, why = next-1, "repeat-1"
			}
		}
		// optionally a valid bridge first, then the bad one (the valid one must not be stored either)
		pos := uint64(0)
		if g.Intn(2) == 0 && why != "repeat-1" {
			ok := world.RandBridge(g, next)
			ok.BlockNum, ok.BlockPos = num, pos
			pos++
			b.Events = append(b.Events, bridgesync.Event{Bridge: ok})
			dc++
			why += "+after-valid"
		}
		bad := world.RandBridge(g, dc)
		bad.BlockNum, bad.BlockPos = num, pos
		b.Events = append(b.Events, bridgesync.Event{Bridge: bad})
		return b, "deposit-count-" + why
	default:
		fr := h.l1.Ref.Frontier.Clone()
		cnt := uint32(len(h.l1.Ref.Leaves))
		ev := &l1infotreesync.UpdateL1InfoTreeV2{CurrentL1InfoRoot: fr.Root(), LeafCount: cnt, Blockhash: world.RandHash(g), MinTimestamp: 5}
		why := ""
		if mode%2 == 0 {
			ev.CurrentL1InfoRoot = world.RandHash(g)
			why = "announced-root-wrong"
		} else {
			ev.LeafCount = cnt + 1
			why = "announced-leafcount-wrong"
		}
		if g.Intn(2) == 0 {
			// a valid leaf first: announce with the stale root
			u := &l1infotreesync.UpdateL1InfoTree{BlockPosition: 0, MainnetExitRoot: world.RandHash(g), RollupExitRoot: world.RandHash(g),
				ParentHash: world.BlockHash(h.salt, num-1), Timestamp: 1_700_000_000 + num}
			b.Events = append(b.Events, l1infotreesync.Event{UpdateL1InfoTree: u})
			if mode%2 == 1 {
				ev.LeafCount = cnt // stale count (should be cnt+1)
			}
			why += "+after-valid-leaf"
		}
		b.Events = append(b.Events, l1infotreesync.Event{UpdateL1InfoTreeV2: ev})
		return b, why
	}
}

func TestC14(t *testing.T) {
	r := mon.Start("C14", "exploration")
	r.Rule("PRNG histories; halting block crafted by deposit-count gap (+1, +many, repeat) resp. announced root / leaf-count mismatch; then every exported query entry point (reflection) " +
		"with pooled valid arguments, ProcessBlock (with events and empty), reorgs above the tip, a reorg that fails (storage fault), and a reorg that removes blocks; " +
		"signature = (kind, halting cause, phase, reorg point class)")
	r.Assume("data-query entry point = exported method returning at least one non-error value together with an error; Start / OriginNetwork / BlockFinality / GetLastReorgEvent / GetContractDepositCount / Verif* are exempt by name (lifecycle, configuration, reorg detector audit log, contract call)")
	kinds := []string{"bridge", "l1info"}
	n := r.N(40, 800)
	methodsSeen := map[string]int{}
	mu := make(chan struct{}, 1)
	mu <- struct{}{}
	type job struct {
		kind string
		i    int
	}
	var jobs []job
	for _, k := range kinds {
		for i := 0; i < n; i++ {
			jobs = append(jobs, job{k, i})
		}
	}
	parallel(len(jobs), runtime.NumCPU(), func(j int) {
		kind, i := jobs[j].kind, jobs[j].i
		caseID := fmt.Sprintf("%s/%d", kind, i)
		if !r.Only(caseID) {
			return
		}
		g := rng(r, "c14-"+kind, i)
		trace := []string{}
		sc := map[string]any{"kind": kind, "trace": &trace}
		guard(r, caseID, sc, func() {
			h := newHistory(kind, g)
			A, err := newStore(kind, "c14A")
			if err != nil {
				r.Inconclusive("cannot open store: " + err.Error())
				return
			}
			defer func() { A.Close() }()
			first := h.extend(3 + g.Intn(15))
			for kind == "l1info" && len(h.l1.Ref.Leaves) == 0 { // an announcement needs a non-empty tree (contract domain)
				first = append(first, h.extend(2)...)
			}
			trace = append(trace, "process "+strings.Join(blockSummary(kind, first), " "))
			for _, b := range first {
				if err := A.Process(b); err != nil {
					r.Violation("C14:"+kind+":process-error", caseID, fmt.Sprintf("ProcessBlock(%d): %v", b.Num, err), sc)
					return
				}
			}
			// a third of the bridge cases: a reorg first removes deposits; the inconsistent block then
			// carries the deposit count that would have been next on the dropped fork (a gap on the
			// surviving history, which is the only history the node may remember)
			var force []uint32
			var dropped0 []aggsync.Block
			if kind == "bridge" && i%3 == 2 && len(h.blocks) > 2 {
				nBefore := len(world.BridgesOf(h.blocks))
				rb0 := h.blocks[1+g.Intn(len(h.blocks)-1)].Num
				if err := A.Reorg(rb0); err != nil {
					r.Violation("C14:"+kind+":reorg-error", caseID, fmt.Sprintf("Reorg(%d): %v", rb0, err), sc)
					return
				}
				dropped0 = h.truncate(rb0)
				trace = append(trace, fmt.Sprintf("reorg(%d) before the inconsistency", rb0))
				if len(world.BridgesOf(h.blocks)) < nBefore {
					force = []uint32{uint32(nBefore)}
				}
			}
			// pools while the store still answers (valid arguments)
			pools := poolsFor(kind, g, h.all, A, nil)
			calls, _ := buildCalls(A.Facade, facadeExclude, pools, g, 25)
			before := askAll(A.Facade, calls)
			fp0, _ := dbFingerprint(A.DB)

			hb, cause := c14HaltingBlock(h, i, force...)
			trace = append(trace, fmt.Sprintf("halting block %s (%s)", blockSummary(kind, []aggsync.Block{hb})[0], cause))
			err = A.Process(hb)
			if !errors.Is(err, aggsync.ErrInconsistentState) {
				r.Violation("C14:"+kind+":inconsistency-not-reported", caseID, fmt.Sprintf("block with %s: ProcessBlock returned %v, want ErrInconsistentState", cause, err), sc)
				return
			}
			if !isHalted(A) {
				r.Violation("C14:"+kind+":not-halted-after-inconsistency", caseID, "halted flag not set after "+cause, sc)
				return
			}
			checkAllRefuse := func(phase string) {
				ans := askAll(A.Facade, calls)
				for k, a := range ans {
					if !a.Incons {
						r.Violation(fmt.Sprintf("C14:%s:%s:answers-while-halted", kind, calls[k].Method), caseID,
							fmt.Sprintf("%s: %s returned (%s, err=%q) while halted, want ErrInconsistentState", phase, calls[k].Desc, clip(a.Val, 120), a.Err), sc)
					} else if !a.ZeroVal {
						r.Violation(fmt.Sprintf("C14:%s:%s:data-with-error", kind, calls[k].Method), caseID,
							fmt.Sprintf("%s: %s returned data %s together with the inconsistency error", phase, calls[k].Desc, clip(a.Val, 120)), sc)
					}
				}
				fp, _ := dbFingerprint(A.DB)
				if d := fpDiff(fp0, fp); len(d) > 0 {
					r.Violation("C14:"+kind+":store-changed-while-halted", caseID, fmt.Sprintf("%s: store content changed while halted: %v", phase, d), sc)
				}
				r.Eval(fmt.Sprintf("%s/%s/%s", kind, cause, phase))
			}
			checkAllRefuse("after-halt")
			<-mu
			for k, c := range calls {
				if before[k].Err == "" && !before[k].ZeroVal {
					methodsSeen[kind+"."+c.Method]++
				} else if _, ok := methodsSeen[kind+"."+c.Method]; !ok {
					methodsSeen[kind+"."+c.Method] = 0
				}
			}
			mu <- struct{}{}

			// does not advance: blocks with events and empty blocks are refused, nothing stored
			saved := append([]aggsync.Block{}, h.blocks...)
			nxt := h.extend(2)
			h.blocks = saved // they are never stored
			empty := aggsync.Block{Num: nxt[len(nxt)-1].Num + 1, Hash: world.BlockHash(h.salt, nxt[len(nxt)-1].Num+1)}
			for _, b := range append(nxt, empty) {
				if err := A.Process(b); !errors.Is(err, aggsync.ErrInconsistentState) {
					r.Violation("C14:"+kind+":advances-while-halted", caseID, fmt.Sprintf("ProcessBlock(%d, %d events) while halted returned %v", b.Num, len(b.Events), err), sc)
				}
			}
			checkAllRefuse("after-more-blocks")
			if kind == "l1info" {
				h.l1.ResetTo(h.blocks, h.lastNum()+1, h.salt)
			}

			// reorgs that remove nothing
			tip := h.lastNum()
			for _, b := range []uint64{tip + 1, tip + 1 + uint64(g.Intn(5)), hb.Num, hb.Num + 1} {
				if b <= tip {
					continue
				}
				if err := A.Reorg(b); err != nil {
					r.Violation("C14:"+kind+":reorg-error", caseID, fmt.Sprintf("Reorg(%d): %v", b, err), sc)
				}
				if !isHalted(A) {
					r.Violation("C14:"+kind+":unhalted-by-empty-reorg", caseID, fmt.Sprintf("Reorg(%d) removed nothing (tip %d) but cleared the halted state", b, tip), sc)
					return
				}
			}
			checkAllRefuse("after-empty-reorg")

			// a reorg that fails in storage removes nothing and must not clear the state
			rb := h.blocks[g.Intn(len(h.blocks))].Num
			tbl := []string{"block", "root", "l1_info_root", "rollup_exit_root"}[g.Intn(4)]
			if kind == "bridge" && tbl != "block" {
				tbl = "root"
			}
			if kind == "l1info" && tbl == "root" {
				tbl = "l1_info_root"
			}
			if _, err := A.DB.Exec(fmt.Sprintf(`CREATE TRIGGER verif_fault BEFORE DELETE ON %s BEGIN SELECT RAISE(ABORT,'verif fault'); END`, tbl)); err == nil {
				err := A.Reorg(rb)
				_, _ = A.DB.Exec(`DROP TRIGGER verif_fault`)
				fp, _ := dbFingerprint(A.DB)
				if err != nil && len(fpDiff(fp0, fp)) == 0 {
					if !isHalted(A) {
						r.Violation("C14:"+kind+":unhalted-by-failed-reorg", caseID, fmt.Sprintf("Reorg(%d) failed (%v) and removed nothing, but the halted state was cleared", rb, err), sc)
						return
					}
					checkAllRefuse("after-failed-reorg/" + tbl)
				} else if err == nil {
					// the fault did not hit (no row of that table at/after rb): the reorg went through
					r.Cover(kind + "/failed-reorg-did-not-fire")
					tip = 0
				}
			}

			var dropped []aggsync.Block
			if isHalted(A) {
				// a reorg that removes processed blocks clears the state; answers equal a fresh store
				k := g.Intn(len(h.blocks))
				rb = h.blocks[k].Num
				posClass := "middle"
				if k == 0 {
					posClass = "first"
				} else if k == len(h.blocks)-1 {
					posClass = "tip"
				}
				if err := A.Reorg(rb); err != nil {
					r.Violation("C14:"+kind+":reorg-error", caseID, fmt.Sprintf("Reorg(%d): %v", rb, err), sc)
					return
				}
				dropped = h.truncate(rb)
				trace = append(trace, fmt.Sprintf("reorg(%d) [%s]", rb, posClass))
				if isHalted(A) {
					r.Violation("C14:"+kind+":still-halted-after-removing-reorg", caseID, fmt.Sprintf("Reorg(%d) removed processed blocks but the store is still halted", rb), sc)
					return
				}
				r.Cover(fmt.Sprintf("%s/%s/unhalt-reorg=%s", kind, cause, posClass))
			} else {
				dropped = h.truncate(rb)
			}
			// rows deleted by an event of a dropped block are C04's known finding, not C14's subject
			skipMethod, _ := c04KnownCause(kind, h.blocks, append(dropped0, dropped...))
			B, err := newStore(kind, "c14B")
			if err != nil {
				r.Inconclusive("cannot open store: " + err.Error())
				return
			}
			defer B.Close()
			cont := h.extend(1 + g.Intn(3))
			for _, b := range h.blocks {
				if err := B.Process(b); err != nil {
					r.Violation("C14:"+kind+":process-error", caseID, fmt.Sprintf("B ProcessBlock(%d): %v", b.Num, err), sc)
					return
				}
			}
			for _, b := range cont {
				if err := A.Process(b); err != nil {
					r.Violation("C14:"+kind+":cannot-continue-after-unhalt", caseID, fmt.Sprintf("ProcessBlock(%d) after the clearing reorg: %v", b.Num, err), sc)
					return
				}
			}
			pools2 := poolsFor(kind, g, h.all, B, nil)
			calls2, _ := buildCalls(A.Facade, facadeExclude, pools2, g, 25)
			d := diffAnswers(calls2, askAll(A.Facade, calls2), askAll(B.Facade, calls2))
			if skipMethod != "" {
				var keep []string
				for _, x := range d {
					if !strings.HasPrefix(x, skipMethod+"(") {
						keep = append(keep, x)
					}
				}
				d = keep
			}
			if len(d) > 0 {
				m := strings.SplitN(d[0], "(", 2)[0]
				r.Violation(fmt.Sprintf("C14:%s:%s:differs-after-unhalt", kind, m), caseID,
					fmt.Sprintf("%d queries differ from a fresh store fed the surviving blocks; first: %s", len(d), d[0]), sc)
			}
			r.Eval(fmt.Sprintf("%s/%s/after-unhalt", kind, cause))
			r.Sample(map[string]any{"kind": kind, "trace": trace})
		})
	})
	ms := map[string]any{}
	for m, c := range methodsSeen {
		ms[m] = c
		if c == 0 && !r.Replaying() {
			r.Inconclusive("query " + m + " never returned data before the halt (its refusal would be vacuous)")
		}
	}
	r.Set("entry_points_checked_while_halted", ms)
	r.Set("methods_excluded", facadeExclude)
	c14Driver(r)
	c14Concurrent(r)
	finish(t, r, r.N(20, 40), "bridge/*", "l1info/*", "driver/halted/does-not-advance", "driver/cleared-by-removing-reorg/converged", "concurrent/bridge/*", "concurrent/l1info/*")
}

var _ = context.Background
var _ = common.Hash{}
