package checks

import (
	"context"
	"crypto/ecdsa"
	"encoding/binary"
	"fmt"
	"math/big"
	"math/rand"
	"os"
	"path/filepath"
	"sync"

	"github.com/0xPolygon/cdk-contracts-tooling/contracts/pp/l2-sovereign-chain/polygonrollupmanager"
	"github.com/agglayer/aggkit/bridgesync"
	"github.com/agglayer/aggkit/l1infotreesync"
	aggsync "github.com/agglayer/aggkit/sync"
	"github.com/ethereum/go-ethereum/accounts/keystore"
	"github.com/ethereum/go-ethereum/common"
	"github.com/ethereum/go-ethereum/crypto"
	"github.com/google/uuid"
	"verifharness/fakes"
	"verifharness/ref"
	"verifharness/world"
)

// The world behind the aggsender scenarios (C02 C03 C09 C10 C13): a consistent multi-chain
// history held by reference models, fed into the REAL L2 bridge store and the REAL L1 info store.
//
//   * mainnet exit tree (deposits on L1 destined to our L2) and the local exit tree of another
//     rollup, both as reference sparse trees, so claim proofs can be produced for any version;
//   * the rollup exit tree and the L1 info tree (leaves bind a mainnet and a rollup exit root);
//   * our L2: blocks with bridges (consecutive deposit counts) and claims of mainnet / rollup
//     origin built with reference proofs against a GER that is already finalized on L1.

const (
	asOurNet     = uint32(1)
	asOtherNet   = uint32(3) // rollup id 3 => rollup index 2
	asSignerPass = "verif"
)

type asDeposit struct {
	LeafType uint8
	OrigNet  uint32
	OrigAddr common.Address
	DestNet  uint32
	DestAddr common.Address
	Amount   *big.Int
	Metadata []byte
	Leaf     common.Hash
}

type asL1Leaf struct {
	Index      uint32
	MER, RER   common.Hash
	GER        common.Hash
	ParentHash common.Hash
	Timestamp  uint64
	Hash       common.Hash
	Block      uint64
	mainnetCnt int // mainnet deposits covered by MER
	otherCnt   int // other-rollup deposits covered by its LER under RER
	otherLER   common.Hash
	retVersion int
}

// asEvent is one L2 event in chain order
type asEvent struct {
	Block  uint64
	Bridge *bridgesync.Bridge
	Claim  *bridgesync.Claim
	// for claims: what the claim was made against
	ClaimLeaf    int // index of the L1 info leaf
	ClaimMainnet bool
	ClaimDeposit int // index of the claimed deposit in its origin tree
}

type asWorld struct {
	mu sync.Mutex
	g  *rand.Rand

	l1       *fakes.Chain
	l1Store  *store
	l1Leaves []asL1Leaf
	l1Front  ref.Frontier
	l1Roots  []common.Hash // root after leaf i

	mainnet     []asDeposit
	mt          *ref.SparseTree
	other       []asDeposit
	ot          *ref.SparseTree
	ret         *ref.SparseTree
	otherVerCnt int // deposits of the other rollup covered by its last verified LER

	l2Store   *store
	l2Next    uint64 // next L2 block number
	l2Events  []asEvent
	l2Front   ref.Frontier
	l2Roots   []common.Hash // L2 exit root after deposit i
	l2Claimed map[string]bool
	dir       string
}

func newASWorld(g *rand.Rand, dir string) (*asWorld, error) {
	w := &asWorld{g: g, mt: ref.NewSparseTree(), ot: ref.NewSparseTree(), ret: ref.NewSparseTree(), l2Next: 1, l2Claimed: map[string]bool{}, dir: dir}
	var err error
	if w.l1Store, err = openStoreFast("l1info", filepath.Join(dir, "l1info.sqlite"), 0); err != nil {
		return nil, err
	}
	if w.l2Store, err = openStoreFast("bridge", filepath.Join(dir, "l2bridge.sqlite"), asOurNet); err != nil {
		return nil, err
	}
	w.l1 = fakes.NewChain(1)
	return w, nil
}

func (w *asWorld) close() {
	w.l1Store.Close()
	w.l2Store.Close()
}

func randDeposit(g *rand.Rand, origNet, destNet uint32) asDeposit {
	d := asDeposit{LeafType: uint8(g.Intn(2)), OrigNet: []uint32{origNet, 0, 7}[g.Intn(3)], OrigAddr: world.RandAddr(g), DestNet: destNet,
		DestAddr: world.RandAddr(g), Amount: world.RandAmount(g), Metadata: world.RandMetadata(g)}
	if len(d.Metadata) > 300 {
		d.Metadata = d.Metadata[:300]
	}
	d.Leaf = ref.BridgeLeaf(d.LeafType, d.OrigNet, d.OrigAddr, d.DestNet, d.DestAddr, d.Amount, d.Metadata)
	return d
}

// l1Step mines one L1 block: possibly new deposits on mainnet / the other rollup, a verification
// of the other rollup and L1 info updates; the block is fed to the real L1 info store with the
// simulator's block hash. finalize moves the finalized pointer to the head.
func (w *asWorld) l1Step(forceLeaf bool, finalize bool) error {
	g := w.g
	for k := g.Intn(3); k > 0; k-- {
		d := randDeposit(g, 0, asOurNet)
		w.mainnet = append(w.mainnet, d)
		w.mt.Set(uint32(len(w.mainnet)-1), d.Leaf)
	}
	for k := g.Intn(2); k > 0; k-- {
		d := randDeposit(g, asOtherNet, asOurNet)
		w.other = append(w.other, d)
		w.ot.Set(uint32(len(w.other)-1), d.Leaf)
	}
	blk := w.l1.Mine(nil)
	var evs []any
	pos := uint64(0)
	if len(w.other) > w.otherVerCnt && g.Intn(2) == 0 {
		w.otherVerCnt = len(w.other)
		ler := w.ot.RootAt(w.otherVerCnt)
		w.ret.Set(asOtherNet-1, ler)
		evs = append(evs, l1infotreesync.Event{VerifyBatches: &l1infotreesync.VerifyBatches{BlockPosition: pos, RollupID: asOtherNet, NumBatch: uint64(len(w.l1Leaves)),
			StateRoot: world.RandHash(g), ExitRoot: ler, Aggregator: world.RandAddr(g)}})
		pos++
		forceLeaf = true
	}
	nLeaves := 0
	if forceLeaf || g.Intn(2) == 0 {
		nLeaves = 1 + g.Intn(2)
	}
	for k := 0; k < nLeaves; k++ {
		mer := common.Hash{}
		if len(w.mainnet) > 0 {
			mer = w.mt.RootAt(len(w.mainnet))
		}
		rer := common.Hash{}
		if w.ret.Versions() > 0 {
			rer = w.ret.Last()
		}
		ger := ref.GER(mer, rer)
		dup := false
		for _, l := range w.l1Leaves {
			if l.GER == ger {
				dup = true
			}
		}
		if dup {
			// the contract only adds a leaf for a new GER: make the mainnet root move
			d := randDeposit(g, 0, asOurNet)
			w.mainnet = append(w.mainnet, d)
			w.mt.Set(uint32(len(w.mainnet)-1), d.Leaf)
			mer = w.mt.RootAt(len(w.mainnet))
			ger = ref.GER(mer, rer)
		}
		lf := asL1Leaf{Index: uint32(len(w.l1Leaves)), MER: mer, RER: rer, GER: ger, ParentHash: blk.Header.ParentHash, Timestamp: blk.Header.Time,
			Block: blk.Num(), mainnetCnt: len(w.mainnet), otherCnt: w.otherVerCnt, retVersion: w.ret.Versions()}
		if w.otherVerCnt > 0 {
			lf.otherLER = w.ot.RootAt(w.otherVerCnt)
		}
		lf.Hash = ref.L1InfoLeaf(ger, lf.ParentHash, lf.Timestamp)
		w.l1Front.Add(lf.Hash)
		w.l1Roots = append(w.l1Roots, w.l1Front.Root())
		w.l1Leaves = append(w.l1Leaves, lf)
		evs = append(evs, l1infotreesync.Event{UpdateL1InfoTree: &l1infotreesync.UpdateL1InfoTree{BlockPosition: pos, MainnetExitRoot: mer, RollupExitRoot: rer,
			ParentHash: lf.ParentHash, Timestamp: lf.Timestamp}})
		pos++
	}
	if err := w.l1Store.Process(aggsync.Block{Num: blk.Num(), Hash: blk.Hash(), Events: evs}); err != nil {
		return fmt.Errorf("L1 info store refused block %d: %w", blk.Num(), err)
	}
	if finalize {
		w.l1.SetFinalized(blk.Num())
	}
	return nil
}

// finalizedLeafCount returns how many L1 info leaves are at or below the finalized L1 block
func (w *asWorld) finalizedLeafCount() int {
	f := w.l1.Finalized()
	n := 0
	for _, l := range w.l1Leaves {
		if l.Block <= f {
			n++
		}
	}
	return n
}

// l2Block processes one new L2 block in the real bridge store. kind: 0 empty, 1 bridges,
// 2 claims, 3 mixed. It returns a short description.
func (w *asWorld) l2Block(kind int) (string, error) {
	g := w.g
	num := w.l2Next
	w.l2Next++
	b := aggsync.Block{Num: num, Hash: world.BlockHash(9, num)}
	pos := uint64(0)
	nb, nc := 0, 0
	addBridge := func() {
		br := world.RandBridge(g, uint32(len(w.l2Roots)))
		br.LeafType = uint8(g.Intn(2))
		br.BlockNum, br.BlockPos = num, pos
		if len(br.Metadata) > 300 {
			br.Metadata = br.Metadata[:300]
		}
		pos++
		w.l2Front.Add(world.BridgeLeafOf(br))
		w.l2Roots = append(w.l2Roots, w.l2Front.Root())
		b.Events = append(b.Events, bridgesync.Event{Bridge: br})
		w.l2Events = append(w.l2Events, asEvent{Block: num, Bridge: br})
		nb++
	}
	addClaim := func() {
		nf := w.finalizedLeafCount()
		if nf == 0 {
			return
		}
		// a GER at or below the finalized L1 info root (the oracle only injects finalized roots)
		k := g.Intn(nf)
		if g.Intn(2) == 0 {
			k = nf - 1
		}
		lf := w.l1Leaves[k]
		mainnet := g.Intn(2) == 0
		if !mainnet && lf.otherCnt == 0 {
			mainnet = true
		}
		if mainnet && lf.mainnetCnt == 0 {
			if lf.otherCnt == 0 {
				return
			}
			mainnet = false
		}
		var dep asDeposit
		var di int
		c := &bridgesync.Claim{BlockNum: num, BlockPos: pos, TxHash: world.RandHash(g), FromAddress: world.RandAddr(g), BlockTimestamp: 1_700_000_000 + num}
		if mainnet {
			di = g.Intn(lf.mainnetCnt)
			key := fmt.Sprintf("m%d", di)
			if w.l2Claimed[key] {
				return
			}
			w.l2Claimed[key] = true
			dep = w.mainnet[di]
			c.GlobalIndex = ref.GlobalIndex(true, 0, uint32(di))
			c.ProofLocalExitRoot = w.mt.ProofAt(lf.mainnetCnt, uint32(di))
		} else {
			di = g.Intn(lf.otherCnt)
			key := fmt.Sprintf("o%d", di)
			if w.l2Claimed[key] {
				return
			}
			w.l2Claimed[key] = true
			dep = w.other[di]
			c.GlobalIndex = ref.GlobalIndex(false, asOtherNet-1, uint32(di))
			c.ProofLocalExitRoot = w.ot.ProofAt(lf.otherCnt, uint32(di))
			c.ProofRollupExitRoot = w.ret.ProofAt(lf.retVersion, asOtherNet-1)
		}
		c.OriginNetwork, c.OriginAddress, c.DestinationAddress, c.DestinationNetwork = dep.OrigNet, dep.OrigAddr, dep.DestAddr, dep.DestNet
		c.Amount, c.Metadata, c.IsMessage = new(big.Int).Set(dep.Amount), append([]byte{}, dep.Metadata...), dep.LeafType == 1
		c.MainnetExitRoot, c.RollupExitRoot, c.GlobalExitRoot = lf.MER, lf.RER, lf.GER
		pos++
		b.Events = append(b.Events, bridgesync.Event{Claim: c})
		w.l2Events = append(w.l2Events, asEvent{Block: num, Claim: c, ClaimLeaf: k, ClaimMainnet: mainnet, ClaimDeposit: di})
		nc++
	}
	switch kind {
	case 1:
		for k := 1 + g.Intn(3); k > 0; k-- {
			addBridge()
		}
	case 2:
		for k := 1 + g.Intn(3); k > 0; k-- {
			addClaim()
		}
	case 3:
		for k := 1 + g.Intn(4); k > 0; k-- {
			if g.Intn(2) == 0 {
				addBridge()
			} else {
				addClaim()
			}
		}
	}
	if err := w.l2Store.Process(b); err != nil {
		return "", fmt.Errorf("L2 bridge store refused block %d: %w", num, err)
	}
	return fmt.Sprintf("L2block(%d: %db %dc)", num, nb, nc), nil
}

// l2Reorg drops the L2 blocks >= b (store and reference): the chain will continue differently
func (w *asWorld) l2Reorg(b uint64) error {
	if err := w.l2Store.Reorg(b); err != nil {
		return err
	}
	var keep []asEvent
	w.l2Front = ref.Frontier{}
	w.l2Roots = nil
	for _, e := range w.l2Events {
		if e.Block >= b {
			if e.Claim != nil {
				key := fmt.Sprintf("o%d", e.ClaimDeposit)
				if e.ClaimMainnet {
					key = fmt.Sprintf("m%d", e.ClaimDeposit)
				}
				delete(w.l2Claimed, key)
			}
			continue
		}
		keep = append(keep, e)
		if e.Bridge != nil {
			w.l2Front.Add(world.BridgeLeafOf(e.Bridge))
			w.l2Roots = append(w.l2Roots, w.l2Front.Root())
		}
	}
	w.l2Events = keep
	w.l2Next = b
	return nil
}

// eventsIn returns the world's bridges and claims of the L2 blocks [from, to] in chain order
func (w *asWorld) eventsIn(from, to uint64) (bridges []asEvent, claims []asEvent) {
	for _, e := range w.l2Events {
		if e.Block < from || e.Block > to {
			continue
		}
		if e.Bridge != nil {
			bridges = append(bridges, e)
		} else {
			claims = append(claims, e)
		}
	}
	return
}

// ---- signer key store ----------------------------------------------------------------------------

// newKeystore writes a key store file with the cheapest scrypt parameters and returns its path
func newKeystore(dir string) (string, *ecdsa.PrivateKey, error) {
	key, err := crypto.GenerateKey()
	if err != nil {
		return "", nil, err
	}
	id, _ := uuid.NewRandom()
	k := &keystore.Key{Id: id, Address: crypto.PubkeyToAddress(key.PublicKey), PrivateKey: key}
	js, err := keystore.EncryptKey(k, asSignerPass, 2, 1)
	if err != nil {
		return "", nil, err
	}
	p := filepath.Join(dir, "signer.keystore")
	return p, key, os.WriteFile(p, js, 0o600)
}

// ---- small fakes -----------------------------------------------------------------------------------

type fakeRollupData struct{ ler common.Hash }

func (f fakeRollupData) GetRollupData(blockNumber *big.Int) (polygonrollupmanager.PolygonRollupManagerRollupDataReturn, error) {
	return polygonrollupmanager.PolygonRollupManagerRollupDataReturn{LastLocalExitRoot: f.ler}, nil
}

// metaOf decodes the certificate metadata (version 2 layout: version(1) from(8) offset(4) createdAt(4) type(1))
func metaOf(h common.Hash) (version uint8, from uint64, offset uint32, createdAt uint32, certType uint8) {
	b := h.Bytes()
	return b[0], binary.BigEndian.Uint64(b[1:9]), binary.BigEndian.Uint32(b[9:13]), binary.BigEndian.Uint32(b[13:17]), b[17]
}

var _ = context.Background
