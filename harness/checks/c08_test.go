package checks

import (
	"context"
	"fmt"
	"runtime"
	"sync/atomic"
	"testing"

	"github.com/agglayer/aggkit/bridgesync"
	"github.com/agglayer/aggkit/l1infotreesync"
	aggsync "github.com/agglayer/aggkit/sync"
	"github.com/ethereum/go-ethereum/common"
	"verifharness/evm"
	"verifharness/mon"
	"verifharness/ref"
	"verifharness/world"
)

// C08 — every Merkle proof served verifies against the root it was asked for.

func posClass(p uint32) string {
	switch {
	case p == 0:
		return "0"
	case p&(p-1) == 0:
		return "pow2"
	case p&(p+1) == 0:
		return "pow2-1"
	case p%2 == 1:
		return "odd"
	}
	return "even"
}

func TestC08(t *testing.T) {
	r := mon.Start("C08", "exploration")
	r.Rule("stores built from PRNG histories (also after reorgs with continuation forks and after restarts); for every recorded root version v and every position p present under v (all pairs) " +
		"the proof returned by GetProof / GetL1InfoTreeMerkleProof(FromIndexToRoot) / GetRollupExitTreeMerkleProof is recomputed bottom-up with the reference leaf and must give root_v, and GetLocalExitRoot must return " +
		"the value last written as of v; a sample of proofs is additionally verified by the L1 contract's verifyMerkleProof bytecode; signature = (tree, historical vs last root, position class, after-reorg, after-restart)")
	r.Assume("positions present under a root = indices below the root's leaf count (append-only trees) resp. rollup ids written at or before that root (rollup exit tree)")
	workers := runtime.NumCPU()
	var pairs, evmChecked atomic.Int64

	// the contract's own verifier, used on a sample
	l1, err := evm.NewL1()
	if err != nil {
		r.Inconclusive("cannot start the in-process EVM: " + err.Error())
		return
	}
	defer l1.Close()
	evmMu := make(chan struct{}, 1)
	evmMu <- struct{}{}
	contractVerify := func(leaf common.Hash, proof [32]common.Hash, idx uint32, root common.Hash) (bool, bool) {
		var p [32][32]byte
		for i := range proof {
			p[i] = proof[i]
		}
		<-evmMu
		defer func() { evmMu <- struct{}{} }()
		ok, err := l1.GER.VerifyMerkleProof(nil, leaf, p, idx, root)
		if err != nil {
			return false, false
		}
		evmChecked.Add(1)
		return ok, true
	}

	nTrees := r.N(36, 300)
	maxBlocks := r.N(60, 110)
	type job struct {
		kind string
		i    int
	}
	var jobs []job
	for _, k := range []string{"bridge", "l1info"} {
		for i := 0; i < nTrees; i++ {
			jobs = append(jobs, job{k, i})
		}
	}
	parallel(len(jobs), workers, func(j int) {
		kind, i := jobs[j].kind, jobs[j].i
		caseID := fmt.Sprintf("%s/%d", kind, i)
		if !r.Only(caseID) {
			return
		}
		g := rng(r, "c08-"+kind, i)
		trace := []string{}
		sc := map[string]any{"kind": kind, "trace": &trace}
		guard(r, caseID, sc, func() {
			h := newHistory(kind, g)
			if kind == "bridge" && i%3 == 0 {
				// few distinct leaf values: identical sub-trees at several aligned positions, so that
				// content-addressed nodes are shared between old and new (possibly reorged) roots
				h.dupPct = 90
				sc["few_distinct_leaves"] = true
			}
			s, err := newFaultStore(kind, "c08")
			if err != nil {
				r.Inconclusive("cannot open store: " + err.Error())
				return
			}
			defer func() { s.Close() }()
			feed := func(bs []aggsync.Block) bool {
				for _, b := range bs {
					if err := s.Process(b); err != nil {
						r.Violation("C08:"+kind+":process-error", caseID, fmt.Sprintf("ProcessBlock(%d): %v", b.Num, err), sc)
						return false
					}
				}
				return true
			}
			if !feed(h.extend(5 + g.Intn(maxBlocks-4))) {
				return
			}
			afterReorg, afterRestart := false, false
			s.Fault.OnlyInTx(true)
			for step := 0; step < 4; step++ {
				switch g.Intn(4) {
				case 3:
					// a block whose processing fails at some storage statement, then is retried
					// (the roots recorded afterwards are roots "the node has recorded" too)
					nb := h.extend(1 + g.Intn(3))
					for _, b := range nb {
						if g.Intn(2) == 0 {
							s.Fault.ArmCommit() // everything was applied in memory, then rolled back
						} else {
							s.Fault.Arm(1+g.Intn(60), false)
						}
						err := s.Process(b)
						_, fired, _ := s.Fault.Disarm()
						if err != nil {
							if err = s.Process(b); err != nil {
								r.Violation("C08:"+kind+":process-error", caseID, fmt.Sprintf("retry of ProcessBlock(%d) after an injected fault: %v", b.Num, err), sc)
								return
							}
							trace = append(trace, fmt.Sprintf("block %d failed once (injected), retried", b.Num))
						}
						_ = fired
					}
				case 0:
					if len(h.blocks) > 2 {
						b := h.blocks[len(h.blocks)/2+g.Intn(len(h.blocks)-len(h.blocks)/2)].Num
						if err := s.Reorg(b); err != nil {
							r.Violation("C08:"+kind+":reorg-error", caseID, err.Error(), sc)
							return
						}
						h.truncate(b)
						trace = append(trace, fmt.Sprintf("reorg(%d)", b))
						if !feed(h.extend(1 + g.Intn(8))) {
							return
						}
						afterReorg = true
					}
				case 1:
					s.Close()
					if s, err = openFaultStore(kind, s.Path); err != nil {
						r.Violation("C08:"+kind+":reopen-error", caseID, err.Error(), sc)
						return
					}
					s.Fault.OnlyInTx(true)
					afterRestart = true
					trace = append(trace, "restart")
				}
			}
			ctx := context.Background()
			tag := fmt.Sprintf("reorg=%v/restart=%v", afterReorg, afterRestart)
			switch kind {
			case "bridge":
				f := s.Facade.(*bridgesync.BridgeSync)
				deps := world.BridgesOf(h.blocks)
				tr := ref.NewSparseTree()
				for k, d := range deps {
					tr.Set(uint32(k), world.BridgeLeafOf(d))
				}
				n := len(deps)
				for v := 1; v <= n; v++ {
					root := tr.RootAt(v)
					for p := 0; p < v; p++ {
						proof, err := f.GetProof(ctx, uint32(p), root)
						leaf := world.BridgeLeafOf(deps[p])
						if err != nil || ref.VerifyProof(leaf, proof, uint32(p)) != root {
							r.Violation("C08:bridge:proof-does-not-verify", caseID,
								fmt.Sprintf("GetProof(%d, root after %d deposits): err=%v, proof+leaf hash to %s, want %s", p, v, err, ref.VerifyProof(leaf, proof, uint32(p)).Hex(), root.Hex()), sc)
							return
						}
						pairs.Add(1)
						if (p*31+v)%97 == 0 {
							if ok, ran := contractVerify(leaf, proof, uint32(p), root); ran && !ok {
								r.Violation("C08:bridge:contract-rejects-proof", caseID, fmt.Sprintf("the contract's verifyMerkleProof rejects GetProof(%d, root after %d deposits)", p, v), sc)
								return
							}
						}
						hist := "historical"
						if v == n {
							hist = "last"
						}
						r.Eval(fmt.Sprintf("exit/%s/pos=%s/%s", hist, posClass(uint32(p)), tag))
					}
				}
			case "l1info":
				f := s.Facade.(*l1infotreesync.L1InfoTreeSync)
				rf := h.l1.Ref
				tr := ref.NewSparseTree()
				for k, lf := range rf.Leaves {
					tr.Set(uint32(k), lf.Hash)
				}
				n := len(rf.Leaves)
				for v := 1; v <= n; v++ {
					root := tr.RootAt(v)
					if root != rf.Leaves[v-1].Root {
						r.Inconclusive("reference sparse tree and reference frontier disagree")
						return
					}
					// proof of the leaf that produced root_v
					proof, rt, err := f.GetL1InfoTreeMerkleProof(ctx, uint32(v-1))
					if err != nil || rt.Hash != root || ref.VerifyProof(rf.Leaves[v-1].Hash, proof, uint32(v-1)) != root {
						r.Violation("C08:l1info:proof-does-not-verify", caseID, fmt.Sprintf("GetL1InfoTreeMerkleProof(%d): err=%v root=%s want %s", v-1, err, rt.Hash.Hex(), root.Hex()), sc)
						return
					}
					for p := 0; p < v; p++ {
						proof, err := f.GetL1InfoTreeMerkleProofFromIndexToRoot(ctx, uint32(p), root)
						if err != nil || ref.VerifyProof(rf.Leaves[p].Hash, proof, uint32(p)) != root {
							r.Violation("C08:l1info:proof-from-index-to-root-does-not-verify", caseID,
								fmt.Sprintf("GetL1InfoTreeMerkleProofFromIndexToRoot(%d, root of leaf count %d): err=%v", p, v, err), sc)
							return
						}
						pairs.Add(1)
						if (p*17+v)%89 == 0 {
							if ok, ran := contractVerify(rf.Leaves[p].Hash, proof, uint32(p), root); ran && !ok {
								r.Violation("C08:l1info:contract-rejects-proof", caseID, fmt.Sprintf("the contract's verifyMerkleProof rejects the proof of leaf %d to the root of leaf count %d", p, v), sc)
								return
							}
						}
						hist := "historical"
						if v == n {
							hist = "last"
						}
						r.Eval(fmt.Sprintf("l1info/%s/pos=%s/%s", hist, posClass(uint32(p)), tag))
					}
				}
				// updatable rollup exit tree: every recorded root x every rollup id written by then
				seen := map[uint32]bool{}
				for ui, u := range rf.Updates {
					seen[u.RollupID] = true
					for id := range seen {
						leaf := rf.RET.LeafAt(u.Version, id-1)
						proof, err := f.GetRollupExitTreeMerkleProof(ctx, id, u.Root)
						if err != nil || ref.VerifyProof(leaf, proof, id-1) != u.Root {
							r.Violation("C08:rollupexit:proof-does-not-verify", caseID,
								fmt.Sprintf("GetRollupExitTreeMerkleProof(rollup %d, root #%d): err=%v", id, ui, err), sc)
							return
						}
						got, err := f.GetLocalExitRoot(ctx, id, u.Root)
						if err != nil || got != leaf {
							r.Violation("C08:rollupexit:leaf-not-last-written", caseID,
								fmt.Sprintf("GetLocalExitRoot(rollup %d, root #%d) = %s err=%v, value last written as of that root is %s", id, ui, got.Hex(), err, leaf.Hex()), sc)
							return
						}
						pairs.Add(1)
						hist := "historical"
						if ui == len(rf.Updates)-1 {
							hist = "last"
						}
						idc := "small"
						if id > 1000 {
							idc = "large"
						}
						r.Eval(fmt.Sprintf("rollupexit/%s/id=%s/%s", hist, idc, tag))
					}
				}
			}
			if i < 2 {
				r.Sample(map[string]any{"kind": kind, "blocks": len(h.blocks), "trace": trace})
			}
		})
	})
	r.Set("root_position_pairs_verified", int(pairs.Load()))
	r.Set("proofs_also_verified_by_contract_bytecode", int(evmChecked.Load()))
	finish(t, r, r.N(30, 50), "exit/*", "l1info/*", "rollupexit/*")
}
