package checks

import (
	"context"
	"fmt"
	"math/rand"
	"path/filepath"
	"strings"
	"sync/atomic"
	"time"

	cfgtypes "github.com/agglayer/aggkit/config/types"
	dbtypes "github.com/agglayer/aggkit/db/types"
	"github.com/agglayer/aggkit/reorgdetector"
	aggsync "github.com/agglayer/aggkit/sync"
	aggkittypes "github.com/agglayer/aggkit/types"
	"github.com/ethereum/go-ethereum/common"
	"verifharness/faultdb"
	"verifharness/fakes"
	"verifharness/mon"
)

// C06 — windows inside the driver / detector hand-shake that boundary scheduling (crash at an RPC
// call) cannot hit. The real detector and the real driver run over the chain simulator; the store
// is the recording processor, seen by each node incarnation through a view that (a) can stop the
// node from inside a call and (b) rejects every call of a dead incarnation (a killed process makes
// no more calls). The persistent state is the recording processor's block list and the detector's
// SQLite file.
//
//	crash-in-reorg       the node dies inside processor.Reorg (nothing rewound); restart
//	crash-after-process  the node dies right after ProcessBlock(N) committed; restart; the chain
//	                     grows; a fork replaces N
//	slow-store           ProcessBlock takes ~6 s while a fork replaces processed blocks
//
// In all of them the store must end up equal to the canonical chain.

type procView struct {
	p     *memProc
	alive atomic.Bool
	// hooks of this incarnation
	onReorgEntry   func() bool             // true: the node dies here (the call fails, nothing applied)
	afterProcessOK func(num uint64) bool   // true: the node dies right after the block was recorded
	slow           func(num uint64) time.Duration
	refuse         func(b aggsync.Block) error // non-nil result: the block cannot be applied (like a UNIQUE conflict with not-yet-rewound rows)
}

func (v *procView) dead() error { return fmt.Errorf("call from a dead node incarnation") }

func (v *procView) GetLastProcessedBlock(ctx context.Context) (uint64, error) {
	if !v.alive.Load() {
		return 0, v.dead()
	}
	return v.p.GetLastProcessedBlock(ctx)
}

func (v *procView) ProcessBlock(ctx context.Context, b aggsync.Block) error {
	if !v.alive.Load() {
		return v.dead()
	}
	if v.slow != nil {
		if d := v.slow(b.Num); d > 0 {
			time.Sleep(d)
		}
	}
	if v.refuse != nil {
		if err := v.refuse(b); err != nil {
			return err
		}
	}
	if err := v.p.ProcessBlock(ctx, b); err != nil {
		return err
	}
	if v.afterProcessOK != nil && v.afterProcessOK(b.Num) {
		v.alive.Store(false)
	}
	return nil
}

func (v *procView) Reorg(ctx context.Context, first uint64) error {
	if !v.alive.Load() {
		return v.dead()
	}
	if v.onReorgEntry != nil && v.onReorgEntry() {
		v.alive.Store(false)
		return context.Canceled
	}
	return v.p.Reorg(ctx, first)
}

func (v *procView) GetCompatibilityData(ctx context.Context, tx dbtypes.Querier) (bool, aggsync.RuntimeData, error) {
	return v.p.GetCompatibilityData(ctx, tx)
}

func (v *procView) SetCompatibilityData(ctx context.Context, tx dbtypes.Querier, d aggsync.RuntimeData) error {
	return v.p.SetCompatibilityData(ctx, tx, d)
}

type winNode struct {
	cancel context.CancelFunc
	cl     *fakes.ChainClient
	view   *procView
	done   chan struct{}
	closeD func()
}

// slowTrackedDelete: the detector's "DELETE FROM tracked_block" statements take this long (a slow
// disk); 0 = the detector is built by its own constructor

func startWinNode(ch *fakes.Chain, dir string, p *memProc, chunk uint64, buffer int, slowTrackedDelete ...time.Duration) (*winNode, error) {
	ctx, cancel := context.WithCancel(context.Background())
	cl := ch.Client()
	var rd *reorgdetector.ReorgDetector
	var err error
	if len(slowTrackedDelete) > 0 && slowTrackedDelete[0] > 0 {
		path := filepath.Join(dir, "rd.sqlite")
		dbh, ctl, derr := faultdb.Open(path)
		if derr != nil {
			cancel()
			return nil, derr
		}
		d := slowTrackedDelete[0]
		ctl.SetDelay(func(kind, query string) {
			if d > time.Microsecond && strings.HasPrefix(strings.TrimSpace(query), "DELETE FROM tracked_block") {
				time.Sleep(d)
			}
		})
		interval := time.Millisecond
		if len(slowTrackedDelete) > 1 && slowTrackedDelete[1] > 0 {
			interval = slowTrackedDelete[1]
		}
		rd, err = reorgdetector.VerifNewWithDB(cl, reorgdetector.Config{DBPath: path, CheckReorgsInterval: cfgtypes.NewDuration(interval), FinalizedBlock: aggkittypes.FinalizedBlock}, reorgdetector.L1, dbh)
	} else {
		rd, err = newDetector(cl, dir)
	}
	if err != nil {
		cancel()
		return nil, err
	}
	if err := rd.Start(ctx); err != nil {
		cancel()
		return nil, err
	}
	rh := &aggsync.RetryHandler{RetryAfterErrorPeriod: 200 * time.Microsecond, MaxRetryAttemptsAfterError: -1}
	d, err := aggsync.NewEVMDownloader("verif", cl, chunk, aggkittypes.LatestBlock, 300*time.Microsecond,
		watchedAppender(), []common.Address{watchedAddr}, rh, aggkittypes.FinalizedBlock)
	if err != nil {
		cancel()
		return nil, err
	}
	v := &procView{p: p}
	v.alive.Store(true)
	drv, err := aggsync.NewEVMDriver(rd, v, d, "verif", buffer, rh, false)
	if err != nil {
		cancel()
		return nil, err
	}
	n := &winNode{cancel: cancel, cl: cl, view: v, done: make(chan struct{}), closeD: func() { _ = rd.VerifDB().Close() }}
	go func() { drv.Sync(ctx); close(n.done) }()
	return n, nil
}

// kill: the process dies (no draining: goroutines of this incarnation may be blocked for ever)
func (n *winNode) kill(wait time.Duration) {
	n.view.alive.Store(false)
	n.cancel()
	n.cl.Kill()
	select {
	case <-n.done:
	case <-time.After(wait):
	}
	n.closeD()
}

func c06Window(r *mon.Run, caseID string, g *rand.Rand, variant string) {
	trace := []string{}
	scen := map[string]any{"variant": variant, "trace": &trace}
	guard(r, caseID, scen, func() {
		ch := fakes.NewChain(1)
		n0 := 14 + g.Intn(20)
		lag := 5 + g.Intn(6)
		evGen := func(num uint64, ph common.Hash, ts uint64) []fakes.LogSpec {
			k := 0
			if g.Intn(2) == 0 {
				k = 1 + g.Intn(2)
			}
			return genericLogs(g, k, true)
		}
		for i := 0; i < n0; i++ {
			ch.Mine(evGen(0, common.Hash{}, 0))
		}
		// the tip carries an event, so that it is processed and (normally) tracked
		ch.Mine(genericLogs(g, 1, true))
		ch.SetFinalized(uint64(n0 - lag))
		dir := scratchDir("c06w")
		p := &memProc{failPlan: map[uint64]int{}}
		chunk := uint64([]int{1, 3, 10}[g.Intn(3)])
		var slowDel, interval time.Duration
		if variant == "retrack-window" {
			slowDel = 25 * time.Millisecond
		}
		if variant == "same-hash-retrack" {
			// slow detector (80 ms) with a slow delete: the driver tracks blocks of the NEW fork before
			// the reorg is reported; they are in the tail the detector removes after the acknowledgement,
			// and the driver re-tracks them with the very same hash
			slowDel, interval = 25*time.Millisecond, 80*time.Millisecond
		}
		if variant == "unprocessable-block" {
			// a detector that looks every 80 ms (production: seconds): the driver reaches the new
			// fork's blocks before the reorg is reported
			slowDel, interval = time.Microsecond, 80*time.Millisecond
		}
		node, err := startWinNode(ch, dir, p, chunk, []int{0, 1, 100}[g.Intn(3)], slowDel, interval)
		if err != nil {
			r.Inconclusive("cannot start node: " + err.Error())
			return
		}
		waitAll := func(bound time.Duration) string {
			deadline := time.Now().Add(bound)
			for {
				delivered, _ := p.snapshot()
				sig, what := c05Judge(ch.Canonical(), delivered, ch.Latest(), true)
				if sig == "" {
					return ""
				}
				if time.Now().After(deadline) {
					return sig + ": " + what
				}
				time.Sleep(2 * time.Millisecond)
			}
		}
		lastDelivered := func() uint64 {
			d, _ := p.snapshot()
			if len(d) == 0 {
				return 0
			}
			return d[len(d)-1].Num
		}
		forkAt := func(at uint64) bool {
			head := ch.Latest()
			nb := ch.Fork(at, int(head-at)+2+g.Intn(3), evGen)
			if nb == nil {
				return false
			}
			trace = append(trace, fmt.Sprintf("fork at %d (finalized %d, old head %d)", at, ch.Finalized(), head))
			return true
		}
		var died atomic.Bool
		switch variant {
		case "crash-in-reorg":
			if w := waitAll(30 * time.Second); w != "" {
				node.kill(time.Second)
				r.Violation("C06:initial-sync-incomplete", caseID, w, scen)
				return
			}
			ld, fin := lastDelivered(), ch.Finalized()
			if ld <= fin {
				node.kill(time.Second)
				r.Eval("")
				return
			}
			node.view.onReorgEntry = func() bool {
				if died.Swap(true) {
					return false
				}
				node.cancel() // the context is done before the failing call returns
				return true
			}
			if !forkAt(fin + 1 + uint64(g.Intn(int(ld-fin)))) {
				node.kill(time.Second)
				r.Eval("")
				return
			}
			for w := 0; w < 5000 && !died.Load(); w++ {
				time.Sleep(2 * time.Millisecond)
			}
			if !died.Load() {
				node.kill(time.Second)
				r.Violation("C06:recording-store-does-not-converge:reorg-of-processed-blocks-never-reported", caseID, "a fork replaced processed blocks and 10 s later processor.Reorg has not been called", scen)
				return
			}
			trace = append(trace, "the node dies inside processor.Reorg (nothing rewound)")
			time.Sleep(20 * time.Millisecond) // whatever the dying incarnation still does to the detector's database
			node.kill(300 * time.Millisecond)
		case "crash-after-process":
			// the node dies right after it has recorded the current tip (which carries an event)
			tip := ch.Latest()
			node.view.afterProcessOK = func(num uint64) bool {
				if num == tip && !died.Swap(true) {
					node.cancel()
					return true
				}
				return false
			}
			for w := 0; w < 15000 && !died.Load(); w++ {
				time.Sleep(2 * time.Millisecond)
			}
			if !died.Load() {
				node.kill(time.Second)
				r.Violation("C06:initial-sync-incomplete", caseID, fmt.Sprintf("block %d (with an event) was not processed within 30 s", tip), scen)
				return
			}
			trace = append(trace, fmt.Sprintf("the node dies right after ProcessBlock(%d) returned", tip))
			time.Sleep(10 * time.Millisecond)
			node.kill(300 * time.Millisecond)
			scen["died_after_block"] = tip
		case "slow-store":
			if w := waitAll(30 * time.Second); w != "" {
				node.kill(time.Second)
				r.Violation("C06:initial-sync-incomplete", caseID, w, scen)
				return
			}
		case "unprocessable-block":
			// the new fork re-includes something the dropped blocks already recorded (e.g. the same
			// batch verification in another block): until the store is rewound, the new fork's blocks
			// cannot be applied (UNIQUE conflict) and ProcessBlock keeps failing
			if w := waitAll(30 * time.Second); w != "" {
				node.kill(time.Second)
				r.Violation("C06:initial-sync-incomplete", caseID, w, scen)
				return
			}
			ld, fin := lastDelivered(), ch.Finalized()
			if ld <= fin {
				node.kill(time.Second)
				r.Eval("")
				return
			}
			var refusals atomic.Int64
			node.view.refuse = func(b aggsync.Block) error {
				canon := ch.Canonical()
				blocks, _ := p.snapshot()
				for _, pb := range blocks {
					if pb.Num < uint64(len(canon)) && pb.Hash != canon[pb.Num].Hash() {
						refusals.Add(1)
						return fmt.Errorf("UNIQUE constraint failed (block %d of a dropped fork is still recorded)", pb.Num)
					}
				}
				return nil
			}
			at := fin + 1 + uint64(g.Intn(int(ld-fin)))
			head := ch.Latest()
			if nb := ch.Fork(at, int(head-at)+3, func(uint64, common.Hash, uint64) []fakes.LogSpec { return genericLogs(g, 1, true) }); nb == nil {
				node.kill(time.Second)
				r.Eval("")
				return
			}
			trace = append(trace, fmt.Sprintf("fork at %d (finalized %d, old head %d); blocks of the new fork cannot be applied while rows of the dropped fork remain", at, fin, head))
			scen["refused_attempts"] = &refusals
		case "same-hash-retrack":
			if w := waitAll(30 * time.Second); w != "" {
				node.kill(time.Second)
				r.Violation("C06:initial-sync-incomplete", caseID, w, scen)
				return
			}
			ld, fin := lastDelivered(), ch.Finalized()
			if ld <= fin {
				node.kill(time.Second)
				r.Eval("")
				return
			}
			a1 := fin + 1 + uint64(g.Intn(int(ld-fin)))
			head := ch.Latest()
			// the new fork is 3 blocks longer; all its blocks carry events
			if nb := ch.Fork(a1, int(head-a1)+4, func(uint64, common.Hash, uint64) []fakes.LogSpec { return genericLogs(g, 1, true) }); nb == nil {
				node.kill(time.Second)
				r.Eval("")
				return
			}
			trace = append(trace, fmt.Sprintf("fork 1 at %d (finalized %d, old head %d, new head %d); detector interval 80 ms, its DELETE FROM tracked_block takes 25 ms", a1, fin, head, ch.Latest()))
			if w := waitAll(30 * time.Second); w != "" {
				node.kill(time.Second)
				r.Violation("C06:recording-store-does-not-converge:same-hash-retrack", caseID, "after fork 1: "+w, scen)
				return
			}
			time.Sleep(150 * time.Millisecond)
			for i := 0; i < 2; i++ {
				ch.Mine(genericLogs(g, 1, true))
			}
			if w := waitAll(30 * time.Second); w != "" {
				node.kill(time.Second)
				r.Violation("C06:recording-store-does-not-converge:same-hash-retrack", caseID, "after fork 1 and two more blocks: "+w, scen)
				return
			}
			// fork 2 replaces the blocks that were beyond the old head
			if head+1 <= ch.Finalized() || !forkAt(head+1) {
				node.kill(time.Second)
				r.Eval("")
				return
			}
		case "retrack-window":
			// fork 1 replaces processed blocks by blocks that all carry events; the driver rewinds,
			// acknowledges and re-tracks the new blocks while the detector's delete of the old range
			// is still on its way (slow disk)
			if w := waitAll(30 * time.Second); w != "" {
				node.kill(time.Second)
				r.Violation("C06:initial-sync-incomplete", caseID, w, scen)
				return
			}
			ld, fin := lastDelivered(), ch.Finalized()
			if ld <= fin+1 {
				node.kill(time.Second)
				r.Eval("")
				return
			}
			a1 := fin + 1 + uint64(g.Intn(int(ld-fin)))
			head := ch.Latest()
			if nb := ch.Fork(a1, int(head-a1)+1, func(uint64, common.Hash, uint64) []fakes.LogSpec { return genericLogs(g, 1, true) }); nb == nil {
				node.kill(time.Second)
				r.Eval("")
				return
			}
			trace = append(trace, fmt.Sprintf("fork 1 at %d (finalized %d, head %d); the detector's DELETE FROM tracked_block takes 25 ms", a1, fin, head))
			if w := waitAll(30 * time.Second); w != "" {
				node.kill(time.Second)
				r.Violation("C06:recording-store-does-not-converge:retrack-window", caseID, "after fork 1: "+w, scen)
				return
			}
			time.Sleep(80 * time.Millisecond) // the delayed delete has happened
			for i := 0; i < 2; i++ {
				ch.Mine(genericLogs(g, 1, true))
			}
			if w := waitAll(30 * time.Second); w != "" {
				node.kill(time.Second)
				r.Violation("C06:recording-store-does-not-converge:retrack-window", caseID, "after fork 1 and two more blocks: "+w, scen)
				return
			}
			// fork 2 replaces the same heights again
			if !forkAt(a1) {
				node.kill(time.Second)
				r.Eval("")
				return
			}
		}

		// second incarnation (same detector database, same store)
		if variant != "slow-store" && variant != "retrack-window" && variant != "unprocessable-block" && variant != "same-hash-retrack" {
			if node, err = startWinNode(ch, dir, p, chunk, 1); err != nil {
				r.Inconclusive("cannot restart node: " + err.Error())
				return
			}
			trace = append(trace, "restart")
		}
		switch variant {
		case "crash-after-process":
			// the chain grows (later blocks get processed and tracked), then a fork replaces the block
			// the first incarnation died on
			tip := scen["died_after_block"].(uint64)
			for i := 0; i < 2+g.Intn(3); i++ {
				ch.Mine(genericLogs(g, 1, true))
			}
			if w := waitAll(30 * time.Second); w != "" {
				node.kill(time.Second)
				r.Violation("C06:recording-store-does-not-converge:after-restart", caseID, w, scen)
				return
			}
			if tip <= ch.Finalized() || !forkAt(tip) {
				node.kill(time.Second)
				r.Eval("")
				return
			}
		case "slow-store":
			// one more event block is being stored slowly while a fork replaces processed blocks
			ld, fin := lastDelivered(), ch.Finalized()
			if ld <= fin+1 {
				node.kill(time.Second)
				r.Eval("")
				return
			}
			var busy atomic.Bool
			slowBlock := ch.Latest() + 1
			node.view.slow = func(num uint64) time.Duration {
				if num == slowBlock && !busy.Swap(true) {
					return 5500*time.Millisecond + time.Duration(g.Intn(1200))*time.Millisecond
				}
				return 0
			}
			ch.Mine(genericLogs(g, 1, true))
			for w := 0; w < 5000 && !busy.Load(); w++ {
				time.Sleep(2 * time.Millisecond)
			}
			if !busy.Load() {
				node.kill(time.Second)
				r.Inconclusive("slow-store: the slow block was never handed to the store")
				return
			}
			if !forkAt(fin + 1 + uint64(g.Intn(int(ld-fin-1)))) {
				node.kill(8 * time.Second)
				r.Eval("")
				return
			}
			trace = append(trace, fmt.Sprintf("ProcessBlock(%d) takes about 6 s; the fork is detected meanwhile", slowBlock))
		}
		for i := 0; i < 1+g.Intn(3); i++ {
			ch.Mine(genericLogs(g, g.Intn(2), true))
		}
		w := waitAll(40 * time.Second)
		_, calls := p.snapshot()
		node.kill(2 * time.Second)
		trace = append(trace, "calls: "+summarizeCalls(calls, 60))
		if w != "" {
			r.Violation("C06:recording-store-does-not-converge:"+variant, caseID, w, scen)
			return
		}
		r.Eval(fmt.Sprintf("window/%s/chunk=%d", variant, chunk))
	})
}
