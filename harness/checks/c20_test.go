package checks

import (
	"encoding/json"
	"fmt"
	"math/big"
	"math/rand"
	"reflect"
	"runtime"
	"sort"
	"sync"
	"testing"

	"github.com/0xPolygon/cdk-contracts-tooling/contracts/fep/etrog/polygonzkevmbridge"
	"github.com/0xPolygon/cdk-contracts-tooling/contracts/pp/l2-sovereign-chain/polygonzkevmbridgev2"
	"github.com/agglayer/aggkit/bridgesync"
	"github.com/ethereum/go-ethereum/accounts/abi"
	"github.com/ethereum/go-ethereum/common"
	"github.com/ethereum/go-ethereum/common/hexutil"
	"github.com/ethereum/go-ethereum/crypto"
	"verifharness/mon"
	"verifharness/ref"
	"verifharness/world"
)

// C20 — claim details are taken only from the matching, non-reverted bridge call.

type c20Frame struct {
	From  common.Address `json:"from"`
	To    common.Address `json:"to"`
	Value string         `json:"value"`
	Error *string        `json:"error,omitempty"`
	Input hexutil.Bytes  `json:"input"`
	Calls []*c20Frame    `json:"calls,omitempty"`

	// generator-side knowledge (not serialised)
	details *c20Details
}

type c20Details struct {
	GlobalIndex *big.Int
	ProofLER    [32]common.Hash
	ProofRER    [32]common.Hash
	MER, RER    common.Hash
	DestNet     uint32
	Metadata    []byte
	IsMessage   bool
	PreEtrog    bool
	Sender      common.Address
}

type c20Tracer struct{ trace []byte }

func (t *c20Tracer) Call(result any, method string, args ...any) error {
	if method != "debug_traceTransaction" {
		return fmt.Errorf("unexpected RPC method %s", method)
	}
	return json.Unmarshal(t.trace, result)
}

var (
	c20V2ABI, _  = polygonzkevmbridgev2.Polygonzkevmbridgev2MetaData.GetAbi()
	c20V1ABI, _  = polygonzkevmbridge.PolygonzkevmbridgeMetaData.GetAbi()
	c20Bridge    = common.HexToAddress("0xB7098a13a48EcE087d3DA15b2D28eCE0f89819B8")
	c20RevertMsg = "execution reverted"
)

// c20FailMsgs are error texts the go-ethereum call tracer puts into a failed frame (core/vm errors):
// a frame with any of them had its state changes discarded, exactly like an explicit revert
var c20FailMsgs = []string{
	"execution reverted", "out of gas", "invalid opcode: INVALID", "write protection", "stack underflow (0 <=> 2)",
	"invalid jump destination", "execution reverted", "contract address collision", "max call depth exceeded",
	"insufficient balance for transfer", "return data out of bounds", "gas uint64 overflow",
}

// c20FailSeen: error texts seen on failed frames addressed to the bridge (evidence)
var c20FailSeen sync.Map

func c20FailMsg(k int) *string {
	s := c20FailMsgs[k%len(c20FailMsgs)]
	return &s
}

func c20Method(a *abi.ABI, id string) abi.Method {
	m, err := a.MethodById(common.Hex2Bytes(id))
	if err != nil {
		panic(err)
	}
	return *m
}

// c20ClaimCall builds a frame addressed to the bridge carrying a claim call with the given index
func c20ClaimCall(g *rand.Rand, gi *big.Int, preEtrog bool) *c20Frame {
	d := &c20Details{GlobalIndex: gi, MER: world.RandHash(g), RER: world.RandHash(g), DestNet: uint32(g.Intn(5)),
		Metadata: world.RandMetadata(g), IsMessage: g.Intn(2) == 0, PreEtrog: preEtrog, Sender: world.RandAddr(g)}
	if len(d.Metadata) > 200 {
		d.Metadata = d.Metadata[:200]
	}
	var pl, pr [32][32]byte
	for i := 0; i < 32; i++ {
		if g.Intn(2) == 0 {
			d.ProofLER[i] = world.RandHash(g)
		}
		if g.Intn(2) == 0 && !preEtrog {
			d.ProofRER[i] = world.RandHash(g)
		}
		pl[i], pr[i] = d.ProofLER[i], d.ProofRER[i]
	}
	var input []byte
	var err error
	if !preEtrog {
		id := "ccaa2d11"
		if d.IsMessage {
			id = "f5efcd79"
		}
		m := c20Method(c20V2ABI, id)
		var packed []byte
		packed, err = m.Inputs.Pack(pl, pr, gi, [32]byte(d.MER), [32]byte(d.RER), uint32(g.Intn(4)), world.RandAddr(g),
			d.DestNet, world.RandAddr(g), world.RandAmount(g), d.Metadata)
		input = append(append([]byte{}, m.ID...), packed...)
	} else {
		id := "2cffd02e"
		if d.IsMessage {
			id = "2d2c9d94"
		}
		m := c20Method(c20V1ABI, id)
		var packed []byte
		packed, err = m.Inputs.Pack(pl, uint32(gi.Uint64()), [32]byte(d.MER), [32]byte(d.RER), uint32(g.Intn(4)), world.RandAddr(g),
			d.DestNet, world.RandAddr(g), world.RandAmount(g), d.Metadata)
		input = append(append([]byte{}, m.ID...), packed...)
	}
	if err != nil {
		panic(err)
	}
	return &c20Frame{From: d.Sender, To: c20Bridge, Value: "0x0", Input: input, details: d}
}

func c20Other(g *rand.Rand) *c20Frame {
	in := make([]byte, g.Intn(40))
	g.Read(in)
	return &c20Frame{From: world.RandAddr(g), To: world.RandAddr(g), Value: "0x0", Input: in}
}

// c20Candidates: bridge calls none of whose ancestors-or-self carries an error and whose index matches
func c20Candidates(f *c20Frame, target *big.Int, revertedAbove bool, depth int, out *[]*c20Details, depths *[]int) {
	rev := revertedAbove || f.Error != nil
	if !rev && f.To == c20Bridge && f.details != nil && f.details.GlobalIndex.Cmp(target) == 0 {
		*out = append(*out, f.details)
		*depths = append(*depths, depth)
	}
	for _, c := range f.Calls {
		c20Candidates(c, target, rev, depth+1, out, depths)
	}
}

func c20CountBridge(f *c20Frame) (n int, reverted int, maxDepth int) {
	var walk func(x *c20Frame, d int)
	walk = func(x *c20Frame, d int) {
		if x.To == c20Bridge {
			n++
		}
		if x.Error != nil {
			reverted++
			if x.To == c20Bridge {
				c20FailSeen.Store(*x.Error, true)
			}
		}
		if d > maxDepth {
			maxDepth = d
		}
		for _, c := range x.Calls {
			walk(c, d+1)
		}
	}
	walk(f, 0)
	return
}

func c20Matches(c *bridgesync.Claim, d *c20Details) bool {
	return c.ProofLocalExitRoot == d.ProofLER && c.ProofRollupExitRoot == d.ProofRER &&
		c.MainnetExitRoot == d.MER && c.RollupExitRoot == d.RER &&
		c.GlobalExitRoot == crypto.Keccak256Hash(d.MER[:], d.RER[:]) &&
		c.DestinationNetwork == d.DestNet && string(c.Metadata) == string(d.Metadata) &&
		c.IsMessage == d.IsMessage && c.FromAddress == d.Sender
}

func c20Check(r *mon.Run, caseID string, root *c20Frame, target *big.Int, kind string) {
	if !r.Only(caseID) {
		return
	}
	trace, err := json.Marshal(root)
	if err != nil {
		r.Inconclusive("cannot marshal trace: " + err.Error())
		return
	}
	sc := map[string]any{"target_global_index": fmt.Sprintf("0x%x", target), "trace": json.RawMessage(trace)}
	guard(r, caseID, sc, func() {
		var cands []*c20Details
		var depths []int
		c20Candidates(root, target, false, 0, &cands, &depths)
		before := bridgesync.Claim{GlobalIndex: new(big.Int).Set(target), FromAddress: common.HexToAddress("0x1234"),
			OriginNetwork: 3, Amount: big.NewInt(5)}
		claim := before
		claim.GlobalIndex = new(big.Int).Set(target)
		err := bridgesync.VerifSetClaimCalldata(&c20Tracer{trace: trace}, c20Bridge, common.Hash{1}, &claim)
		nBridge, nRev, maxDepth := c20CountBridge(root)
		if len(cands) == 0 {
			if err == nil {
				r.Violation("C20:no-matching-call-but-no-error", caseID, "the transaction contains no non-reverted bridge call with the event's global index, but no error was raised", sc)
			}
			claim.GlobalIndex, before.GlobalIndex = nil, nil
			if !reflect.DeepEqual(claim, before) {
				r.Violation("C20:details-recorded-without-matching-call", caseID, fmt.Sprintf("claim details changed although no matching non-reverted call exists: %+v", claim), sc)
			}
			r.Eval(fmt.Sprintf("%s/none/bridgecalls=%d/reverted=%v/depth=%d", kind, min(nBridge, 3), nRev > 0, min(maxDepth, 4)))
			return
		}
		if err != nil {
			r.Violation("C20:matching-call-not-found", caseID, fmt.Sprintf("%d matching non-reverted bridge call(s) exist but an error was returned: %v", len(cands), err), sc)
			return
		}
		ok := false
		for _, d := range cands {
			if c20Matches(&claim, d) {
				ok = true
			}
		}
		if !ok {
			r.Violation("C20:details-from-wrong-call", caseID, "the recorded claim details are not those of any matching non-reverted bridge call", sc)
		}
		r.Eval(fmt.Sprintf("%s/match/depth=%d/bridgecalls=%d/reverted=%v/pre=%v/msg=%v", kind, min(depths[0], 4), min(nBridge, 3), nRev > 0, cands[0].PreEtrog, cands[0].IsMessage))
	})
}

func TestC20(t *testing.T) {
	r := mon.Start("C20", "exploration")
	r.Rule("call trees: every ordered tree shape with <= K frames x per-frame label {bridge call with the event's index, bridge call with another index, other contract} x reverted y/n (exhaustive), " +
		"then PRNG trees (depth <= 6, fan-out <= 4, 0-4 bridge calls, both contract generations, asset/message); signature = (match depth, #bridge calls, reverted frame present, generation, kind) or none-case class")
	r.Assume("every call addressed to the bridge is a claim call (the property's domain); traces are served by a fake debug_traceTransaction")
	workers := runtime.NumCPU()

	// ---- exhaustive small trees --------------------------------------------------------------
	maxFrames := r.N(4, 5)
	var shapes [][]int // parent vector, parent[i] < i, ordered trees
	var gen func(parents []int, n int)
	gen = func(parents []int, n int) {
		if len(parents) == n {
			shapes = append(shapes, append([]int{}, parents...))
			return
		}
		// next node may attach to any node on the rightmost path
		i := len(parents)
		// rightmost path of the current tree
		path := []int{}
		cur := i - 1
		for cur >= 0 {
			path = append(path, cur)
			cur = parents[cur]
		}
		for _, p := range path {
			gen(append(parents, p), n)
		}
	}
	for n := 1; n <= maxFrames; n++ {
		gen([]int{-1}, n)
	}
	type ex struct {
		shape  []int
		labels int
	}
	var exs []ex
	for _, s := range shapes {
		total := 1
		for range s {
			total *= 6
		}
		for l := 0; l < total; l++ {
			exs = append(exs, ex{s, l})
		}
	}
	r.Set("exhaustive_trees", len(exs))
	r.Set("exhaustive_shapes", len(shapes))
	parallel(len(exs), workers, func(i int) {
		e := exs[i]
		g := rng(r, "ex", i)
		target := ref.GlobalIndex(g.Intn(2) == 0, uint32(g.Intn(3)), uint32(g.Intn(100)))
		pre := g.Intn(4) == 0
		if pre {
			target = big.NewInt(int64(g.Intn(1000)))
		}
		frames := make([]*c20Frame, len(e.shape))
		l := e.labels
		for k := range e.shape {
			lab := l % 6
			l /= 6
			switch lab % 3 {
			case 0:
				frames[k] = c20ClaimCall(g, new(big.Int).Set(target), pre)
			case 1:
				other := new(big.Int).Add(target, big.NewInt(int64(1+g.Intn(5))))
				frames[k] = c20ClaimCall(g, other, pre)
			default:
				frames[k] = c20Other(g)
			}
			if lab >= 3 {
				frames[k].Error = c20FailMsg(i + k)
			}
			if e.shape[k] >= 0 {
				frames[e.shape[k]].Calls = append(frames[e.shape[k]].Calls, frames[k])
			}
		}
		c20Check(r, fmt.Sprintf("ex/%d", i), frames[0], target, "ex")
	})

	// ---- random trees ------------------------------------------------------------------------
	nRand := r.N(5000, 500_000)
	parallel(workers, workers, func(w int) {
		g := rng(r, "rand", w)
		for i := 0; i < nRand/workers; i++ {
			pre := g.Intn(4) == 0
			var target *big.Int
			if pre {
				target = big.NewInt(int64(g.Intn(1 << 20)))
			} else {
				target = ref.GlobalIndex(g.Intn(2) == 0, uint32(g.Intn(4)), randU32(g))
			}
			bridgeBudget := g.Intn(5)
			var build func(depth int) *c20Frame
			build = func(depth int) *c20Frame {
				var f *c20Frame
				if bridgeBudget > 0 && g.Intn(3) == 0 {
					bridgeBudget--
					switch g.Intn(4) {
					case 0, 1:
						f = c20ClaimCall(g, new(big.Int).Set(target), pre)
					case 2:
						// same low bits, other flag / rollup: collides when compared truncated
						other := new(big.Int).Xor(target, new(big.Int).Lsh(big.NewInt(1), uint(32+g.Intn(33))))
						if pre {
							other = new(big.Int).Add(target, big.NewInt(1))
						}
						f = c20ClaimCall(g, other, pre)
					default:
						f = c20ClaimCall(g, new(big.Int).Add(target, big.NewInt(int64(1+g.Intn(3)))), pre && g.Intn(2) == 0)
					}
				} else {
					f = c20Other(g)
				}
				if g.Intn(6) == 0 {
					f.Error = c20FailMsg(g.Intn(1 << 20))
				}
				if depth < 6 {
					for k := g.Intn(5 - min(depth, 3)); k > 0; k-- {
						f.Calls = append(f.Calls, build(depth+1))
					}
				}
				return f
			}
			root := build(0)
			if g.Intn(10) != 0 {
				root.Error = nil
			}
			c20Check(r, fmt.Sprintf("rand/%d/%d", w, i), root, target, "rand")
		}
	})
	var texts []string
	c20FailSeen.Range(func(k, _ any) bool { texts = append(texts, k.(string)); return true })
	sort.Strings(texts)
	r.Set("error_texts_on_failed_bridge_frames", texts)
	if len(texts) < 5 && !r.Replaying() {
		r.Inconclusive("fewer than 5 distinct failure texts reached a frame addressed to the bridge")
	}
	r.Sample(map[string]any{"shape": "root(other) -> [reverted wrapper -> bridge claim(index=event index)]", "expected": "error, nothing recorded"})
	finish(t, r, r.N(40, 60), "ex/match*", "ex/none*", "rand/match*", "rand/none*")
}
