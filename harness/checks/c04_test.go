package checks

import (
	"database/sql"
	"fmt"
	"math/rand"
	"runtime"
	"sort"
	"strings"
	"testing"

	"github.com/agglayer/aggkit/bridgesync"
	"github.com/agglayer/aggkit/l1infotreesync"
	"github.com/agglayer/aggkit/lastgersync"
	aggsync "github.com/agglayer/aggkit/sync"
	"github.com/ethereum/go-ethereum/common"
	"verifharness/mon"
	"verifharness/world"
)

// readHashes returns the `hash` column of a root table
func readHashes(dbh *sql.DB, table string) []common.Hash {
	rows, err := dbh.Query("SELECT hash FROM " + table)
	if err != nil {
		return nil
	}
	defer rows.Close()
	var out []common.Hash
	for rows.Next() {
		var s string
		if rows.Scan(&s) == nil {
			out = append(out, common.HexToHash(s))
		}
	}
	sort.Slice(out, func(i, j int) bool { return strings.Compare(out[i].Hex(), out[j].Hex()) < 0 })
	return out
}

func sampleHashes(g *rand.Rand, hs []common.Hash, n int) []any {
	out := []any{}
	if len(hs) <= n {
		for _, h := range hs {
			out = append(out, h)
		}
		return out
	}
	for i := 0; i < n; i++ {
		out = append(out, hs[g.Intn(len(hs))])
	}
	return out
}

func anyU32(vs ...uint32) []any {
	out := make([]any, len(vs))
	for i, v := range vs {
		out[i] = v
	}
	return out
}

func anyU64(vs ...uint64) []any {
	out := make([]any, len(vs))
	for i, v := range vs {
		out[i] = v
	}
	return out
}

func sampleU64(g *rand.Rand, vs []uint64, n int) []uint64 {
	if len(vs) <= n {
		return vs
	}
	out := make([]uint64, n)
	for i := range out {
		out[i] = vs[g.Intn(len(vs))]
	}
	return out
}

// poolsFor builds the argument pools of a store kind. `everGenerated` is every block ever
// generated (incl. dropped ones: their numbers, roots, GERs are valid *look-up* arguments);
// `ref` is a store holding only the surviving history: the roots it records are the ones usable
// as proof / leaf look-up *targets* (DESIGN.md C04, "Domain of the argument pools").
func poolsFor(kind string, g *rand.Rand, everGenerated []aggsync.Block, ref *store, extraHashes []common.Hash) *argPools {
	p := &argPools{Override: map[string]map[int][]any{}}
	var nums []uint64
	maxNum := uint64(0)
	for _, b := range everGenerated {
		nums = append(nums, b.Num, b.Num+1)
		if b.Num > 0 {
			nums = append(nums, b.Num-1)
		}
		if b.Num > maxNum {
			maxNum = b.Num
		}
	}
	p.U64 = append([]uint64{0, 1, maxNum + 5}, sampleU64(g, nums, 10)...)
	pages := anyU32(0, 1, 2, 3)
	sizes := anyU32(0, 1, 2, 5, 100)
	randH := func() common.Hash { return world.RandHash(g) }
	switch kind {
	case "bridge":
		var dcs []uint32
		var roots []common.Hash
		nb := 0
		for _, b := range everGenerated {
			for _, e := range b.Events {
				if ev := e.(bridgesync.Event); ev.Bridge != nil {
					nb++
				}
			}
		}
		for i := 0; i <= nb+1 && i < 12; i++ {
			dcs = append(dcs, uint32(i))
		}
		if nb > 12 {
			for i := 0; i < 6; i++ {
				dcs = append(dcs, uint32(g.Intn(nb+2)))
			}
		}
		p.U32 = dcs
		roots = readHashes(ref.DB, "root")
		lookups := append(append([]common.Hash{}, roots...), extraHashes...)
		lookups = append(lookups, randH())
		p.Hashes = lookups
		dcPtrs := []any{nil}
		for _, d := range dcs[:min(len(dcs), 5)] {
			v := uint64(d)
			dcPtrs = append(dcPtrs, &v)
		}
		p.Override["GetBridgesPaged"] = map[int][]any{1: pages[1:], 2: sizes[1:], 3: dcPtrs}
		p.Override["GetClaimsPaged"] = map[int][]any{1: pages[1:], 2: sizes[1:]}
		p.Override["GetTokenMappings"] = map[int][]any{1: pages, 2: sizes}
		p.Override["GetLegacyTokenMigrations"] = map[int][]any{1: pages, 2: sizes}
		p.Override["GetProof"] = map[int][]any{2: sampleHashes(g, roots, 8)}
	case "l1info":
		nl := 0
		ids := map[uint32]bool{}
		var gers, rers []common.Hash
		for _, b := range everGenerated {
			for _, e := range b.Events {
				ev := e.(l1infotreesync.Event)
				if ev.UpdateL1InfoTree != nil {
					nl++
					rers = append(rers, ev.UpdateL1InfoTree.RollupExitRoot)
					gers = append(gers, crypto2(ev.UpdateL1InfoTree.MainnetExitRoot, ev.UpdateL1InfoTree.RollupExitRoot))
				}
				if ev.VerifyBatches != nil {
					ids[ev.VerifyBatches.RollupID] = true
				}
			}
		}
		var idx []uint32
		for i := 0; i <= nl+1 && i < 12; i++ {
			idx = append(idx, uint32(i))
		}
		if nl > 12 {
			for i := 0; i < 6; i++ {
				idx = append(idx, uint32(g.Intn(nl+2)))
			}
		}
		p.U32 = idx
		netIDs := []any{uint32(0)}
		for id := range ids {
			netIDs = append(netIDs, id)
			if id < 1<<32-1 {
				netIDs = append(netIDs, id+1)
			}
		}
		sort.Slice(netIDs, func(i, j int) bool { return netIDs[i].(uint32) < netIDs[j].(uint32) })
		l1roots := readHashes(ref.DB, "l1_info_root")
		retroots := readHashes(ref.DB, "rollup_exit_root")
		p.Hashes = append(append(append([]common.Hash{}, gers...), rers...), randH())
		p.Override["GetRollupExitTreeMerkleProof"] = map[int][]any{1: netIDs, 2: sampleHashes(g, retroots, 8)}
		p.Override["GetLocalExitRoot"] = map[int][]any{1: netIDs, 2: sampleHashes(g, retroots, 8)}
		p.Override["GetLastVerifiedBatches"] = map[int][]any{0: netIDs}
		p.Override["GetFirstVerifiedBatches"] = map[int][]any{0: netIDs}
		p.Override["GetFirstVerifiedBatchesAfterBlock"] = map[int][]any{0: netIDs}
		p.Override["GetL1InfoTreeMerkleProofFromIndexToRoot"] = map[int][]any{2: sampleHashes(g, l1roots, 8)}
		gl := []any{}
		for _, h := range sampleHashes(g, append(gers, extraHashes...), 10) {
			gl = append(gl, h)
		}
		gl = append(gl, randH())
		p.Override["GetInfoByGlobalExitRoot"] = map[int][]any{0: gl}
		rl := []any{}
		for _, h := range sampleHashes(g, rers, 10) {
			rl = append(rl, h)
		}
		rl = append(rl, randH())
		p.Override["GetFirstL1InfoWithRollupExitRoot"] = map[int][]any{0: rl}
	case "ger":
		maxIdx := uint32(0)
		for _, b := range everGenerated {
			for _, e := range b.Events {
				ev := e.(*lastgersync.Event)
				if ev.GERInfo != nil && ev.GERInfo.L1InfoTreeIndex > maxIdx {
					maxIdx = ev.GERInfo.L1InfoTreeIndex
				}
				if ev.GEREvent != nil && ev.GEREvent.L1InfoTreeIndex > maxIdx {
					maxIdx = ev.GEREvent.L1InfoTreeIndex
				}
			}
		}
		for i := uint32(0); i <= maxIdx+1 && i < 40; i++ {
			p.U32 = append(p.U32, i)
		}
		for i := 0; i < 10 && maxIdx >= 40; i++ {
			p.U32 = append(p.U32, uint32(g.Intn(int(maxIdx)+2)))
		}
	}
	return p
}

func crypto2(a, b common.Hash) common.Hash { return world.GERof(a, b) }

// c04KnownCause reports whether the dropped blocks contain a *destructive delete* of rows that
// belong to surviving blocks (known finding §6(5)): returns the method whose answer it affects.
func c04KnownCause(kind string, surviving, dropped []aggsync.Block) (method string, sig string) {
	switch kind {
	case "bridge":
		mig := map[common.Address]bool{}
		for _, b := range surviving {
			for _, e := range b.Events {
				if ev := e.(bridgesync.Event); ev.LegacyTokenMigration != nil {
					mig[ev.LegacyTokenMigration.LegacyTokenAddress] = true
				}
				if ev := e.(bridgesync.Event); ev.RemoveLegacyToken != nil {
					delete(mig, ev.RemoveLegacyToken.LegacyTokenAddress)
				}
			}
		}
		for _, b := range dropped {
			for _, e := range b.Events {
				if ev := e.(bridgesync.Event); ev.RemoveLegacyToken != nil && mig[ev.RemoveLegacyToken.LegacyTokenAddress] {
					return "GetLegacyTokenMigrations", "C04:bridge:legacy-migration-deleted-by-dropped-removal-not-restored"
				}
			}
		}
	case "ger":
		live := map[common.Hash]bool{}
		for _, b := range surviving {
			for _, e := range b.Events {
				ev := e.(*lastgersync.Event)
				if ev.GERInfo != nil {
					live[ev.GERInfo.GlobalExitRoot] = true
				}
				if ev.GEREvent != nil {
					if ev.GEREvent.IsRemove {
						delete(live, ev.GEREvent.GlobalExitRoot)
					} else {
						live[ev.GEREvent.GlobalExitRoot] = true
					}
				}
			}
		}
		for _, b := range dropped {
			for _, e := range b.Events {
				ev := e.(*lastgersync.Event)
				if ev.GEREvent != nil && ev.GEREvent.IsRemove && live[ev.GEREvent.GlobalExitRoot] {
					return "GetFirstGERAfterL1InfoTreeIndex", "C04:ger:injected-root-deleted-by-dropped-removal-not-restored"
				}
			}
		}
	}
	return "", ""
}

// TestC04 — a reorg leaves the node exactly as if the dropped blocks had never been seen.
func TestC04(t *testing.T) {
	r := mon.Start("C04", "exploration")
	r.Rule("PRNG histories per store kind, reorg point from {first block, inside, tip, tip+1, tip+5, a gap number}, 1-3 successive reorgs with continuation forks; " +
		"every exported query method (reflection) with pooled arguments is compared between the long-lived store A and a fresh store B fed only the surviving blocks, " +
		"right after the reorg (A not reopened), after the continuation, and after reopening A; signature = (kind, reorg position class, dropped-leaves class, phase, round)")
	r.Assume("root hashes used as proof / leaf look-up targets are roots recorded by the surviving history (the rht node store is content addressed and never pruned by design)",
		"Start, GetLastReorgEvent, GetContractDepositCount, OriginNetwork, BlockFinality are not store queries and are excluded by name")
	kinds := []string{"bridge", "l1info", "ger"}
	nHist := r.N(60, 1500)
	maxBlocks := r.N(25, 80)
	methodsCompared := map[string]map[string]int{} // kind -> method -> non-empty comparisons
	var mmu = make(chan struct{}, 1)
	mmu <- struct{}{}

	type job struct {
		kind string
		i    int
	}
	var jobs []job
	for _, k := range kinds {
		for i := 0; i < nHist; i++ {
			jobs = append(jobs, job{k, i})
		}
	}
	parallel(len(jobs), runtime.NumCPU(), func(j int) {
		kind, i := jobs[j].kind, jobs[j].i
		caseID := fmt.Sprintf("%s/%d", kind, i)
		if !r.Only(caseID) {
			return
		}
		g := rng(r, "c04-"+kind, i)
		trace := []string{}
		sc := map[string]any{"kind": kind, "trace": &trace}
		guard(r, caseID, sc, func() {
			h := newHistory(kind, g)
			A, err := newStore(kind, "c04A")
			if err != nil {
				r.Inconclusive("cannot open store: " + err.Error())
				return
			}
			defer func() { A.Close() }()
			feed := func(s *store, bs []aggsync.Block, who string) bool {
				for _, b := range bs {
					if err := s.Process(b); err != nil {
						r.Violation("C04:"+kind+":process-error", caseID, fmt.Sprintf("%s: ProcessBlock(%d) failed: %v", who, b.Num, err), sc)
						return false
					}
				}
				return true
			}
			first := h.extend(3 + g.Intn(maxBlocks-2))
			trace = append(trace, "process "+strings.Join(blockSummary(kind, first), " "))
			if !feed(A, first, "A") {
				return
			}
			rounds := 1 + g.Intn(3)
			var droppedHashes []common.Hash
			stickyMethod, stickySig := "", "" // a destructive delete stays in A for the rest of the case
			for round := 0; round < rounds; round++ {
				// --- choose the reorg point
				var b uint64
				posClass := ""
				tip := h.lastNum()
				switch g.Intn(6) {
				case 0:
					b, posClass = h.blocks[0].Num, "first"
				case 1:
					b, posClass = tip, "tip"
				case 2:
					b, posClass = tip+1, "tip+1"
				case 3:
					b, posClass = tip+5, "tip+5"
				case 4: // a number inside a gap, if any
					b, posClass = h.blocks[g.Intn(len(h.blocks))].Num+1, "inside+1"
				default:
					b, posClass = h.blocks[g.Intn(len(h.blocks))].Num, "inside"
				}
				if len(h.blocks) == 0 {
					break
				}
				// roots recorded before the reorg (dropped ones become look-up arguments)
				switch kind {
				case "bridge":
					droppedHashes = append(droppedHashes, sampleH(g, readHashes(A.DB, "root"), 6)...)
				case "l1info":
					droppedHashes = append(droppedHashes, sampleH(g, readHashes(A.DB, "l1_info_root"), 4)...)
				}
				// sometimes the node has just detected an inconsistency (halted, nothing stored) when
				// the reorg arrives
				if kind != "ger" && g.Intn(4) == 0 && (kind != "l1info" || len(h.l1.Ref.Leaves) > 0) {
					hb, cause := c14HaltingBlock(h, g.Intn(6))
					if err := A.Process(hb); err == nil {
						r.Violation("C04:"+kind+":inconsistent-block-accepted", caseID, "block with "+cause+" was accepted", sc)
						return
					}
					trace = append(trace, "halting block ("+cause+") refused before the reorg")
					if b > tip { // a reorg that removes nothing would (rightly) leave the node halted
						b, posClass = tip, "tip"
					}
				}
				// a concurrent reader may be in the middle of a query (holding a pooled connection)
				var cursor *sql.Rows
				if g.Intn(2) == 0 {
					if cursor, _ = A.DB.Query("SELECT num FROM block"); cursor != nil {
						cursor.Next()
					}
				}
				err := A.Reorg(b)
				if cursor != nil {
					cursor.Close()
				}
				if err != nil {
					r.Violation("C04:"+kind+":reorg-error", caseID, fmt.Sprintf("Reorg(%d): %v", b, err), sc)
					return
				}
				surv0 := append([]aggsync.Block{}, h.blocks...)
				dropped := h.truncate(b)
				trace = append(trace, fmt.Sprintf("reorg(%d) [%s] drops %d blocks", b, posClass, len(dropped)))
				nDroppedLeaves := 0
				for _, d := range blockSummary(kind, dropped) {
					nDroppedLeaves += strings.Count(d, "bridge#") + strings.Count(d, "info") + strings.Count(d, "insert(")
				}
				_ = surv0
				// --- fresh store fed only the surviving blocks
				B, err := newStore(kind, "c04B")
				if err != nil {
					r.Inconclusive("cannot open store: " + err.Error())
					return
				}
				closeB := func() { B.Close() }
				if !feed(B, h.blocks, "B") {
					closeB()
					return
				}
				knownMethod, knownSig := c04KnownCause(kind, h.blocks, dropped)
				if knownMethod == "" {
					knownMethod, knownSig = stickyMethod, stickySig
				} else {
					stickyMethod, stickySig = knownMethod, knownSig
				}
				compare := func(phase string) {
					pools := poolsFor(kind, g, h.all, B, droppedHashes)
					calls, unsupported := buildCalls(A.Facade, facadeExclude, pools, g, 40)
					for _, u := range unsupported {
						r.Inconclusive("no argument generator for method " + u)
					}
					aa, bb := askAll(A.Facade, calls), askAll(B.Facade, calls)
					diffs := diffAnswers(calls, aa, bb)
					var other []string
					knownHit := false
					for _, d := range diffs {
						if knownMethod != "" && strings.HasPrefix(d, knownMethod+"(") {
							knownHit = true
							continue
						}
						other = append(other, d)
					}
					if knownHit {
						r.Violation(knownSig, caseID, fmt.Sprintf("%s after reorg(%d): rows of surviving blocks deleted by an event of a dropped block are not restored; first diff: %s", phase, b, firstOf(diffs, knownMethod)), sc)
					}
					if len(other) > 0 {
						m := strings.SplitN(other[0], "(", 2)[0]
						r.Violation(fmt.Sprintf("C04:%s:%s:differs-%s", kind, m, phase), caseID,
							fmt.Sprintf("%d queries answer differently from a node that never saw the dropped blocks (%s, reorg at %d [%s]); first: %s", len(other), phase, b, posClass, other[0]), sc)
					}
					<-mmu
					if methodsCompared[kind] == nil {
						methodsCompared[kind] = map[string]int{}
					}
					for k, c := range calls {
						if aa[k].Err == "" && !aa[k].ZeroVal {
							methodsCompared[kind][c.Method]++
						} else if _, ok := methodsCompared[kind][c.Method]; !ok {
							methodsCompared[kind][c.Method] = 0
						}
					}
					mmu <- struct{}{}
					r.Add("queries_compared", len(calls))
				}
				compare("after-reorg")
				// --- continuation on the new fork, fed to both
				cont := h.extend(1 + g.Intn(6))
				trace = append(trace, "continue "+strings.Join(blockSummary(kind, cont), " "))
				if !feed(A, cont, "A(continuation)") || !feed(B, cont, "B(continuation)") {
					closeB()
					return
				}
				compare("after-continuation")
				if g.Intn(2) == 0 || round == rounds-1 {
					A2, err := A.reopen()
					if err != nil {
						r.Violation("C04:"+kind+":reopen-error", caseID, err.Error(), sc)
						closeB()
						return
					}
					A = A2
					compare("after-restart")
				}
				closeB()
				dl := "0"
				if nDroppedLeaves > 0 {
					dl = "1+"
				}
				if nDroppedLeaves > 3 {
					dl = "4+"
				}
				r.Eval(fmt.Sprintf("%s/pos=%s/leaves=%s/round=%d/known=%v", kind, posClass, dl, round, knownMethod != ""))
			}
			r.Sample(map[string]any{"kind": kind, "trace": trace})
		})
	})
	// every exported query must have been compared at least once on a non-empty answer
	mc := map[string]any{}
	for k, ms := range methodsCompared {
		mc[k] = ms
		for m, n := range ms {
			if n == 0 && !r.Replaying() {
				r.Inconclusive(fmt.Sprintf("query %s.%s was never compared on a non-empty answer", k, m))
			}
		}
	}
	r.Set("methods_compared_nonempty", mc)
	r.Set("methods_excluded", facadeExclude)
	// driver level (plane shared with C06): the node dies right after a block was recorded, restarts,
	// the chain grows and a fork drops that block; the store must look as if it had never seen it
	nDrv := r.N(6, 60)
	parallel(nDrv, runtime.NumCPU(), func(i int) {
		caseID := fmt.Sprintf("driver-window/%d", i)
		if !r.Only(caseID) {
			return
		}
		c06Window(r, caseID, rng(r, "c04window", i), "crash-after-process")
	})
	finish(t, r, r.N(30, 60), "bridge/*", "l1info/*", "ger/*", "window/crash-after-process*")
}

func sampleH(g *rand.Rand, hs []common.Hash, n int) []common.Hash {
	if len(hs) <= n {
		return hs
	}
	out := make([]common.Hash, n)
	for i := range out {
		out[i] = hs[g.Intn(len(hs))]
	}
	return out
}

func firstOf(diffs []string, method string) string {
	for _, d := range diffs {
		if strings.HasPrefix(d, method+"(") {
			return d
		}
	}
	return ""
}
