package checks

import (
	"context"
	"fmt"
	"math/big"
	"math/rand"
	"runtime"
	"sync/atomic"
	"testing"

	"github.com/agglayer/aggkit/bridgesync"
	aggsync "github.com/agglayer/aggkit/sync"
	"github.com/ethereum/go-ethereum/common"
	"github.com/ethereum/go-ethereum/crypto"
	"verifharness/evm"
	"verifharness/mon"
	"verifharness/ref"
	"verifharness/world"
)

// C01 — synced exit-tree root equals the bridge contract's root at every deposit.

// c01Partition splits deposits into blocks according to mode
func c01Partition(g *rand.Rand, deps []*bridgesync.Bridge, mode int, salt uint64) []aggsync.Block {
	var out []aggsync.Block
	num := uint64(1 + g.Intn(5))
	i := 0
	for i < len(deps) {
		var k int
		switch mode {
		case 0:
			k = 1
		case 1:
			k = len(deps)
		case 2:
			k = 2
		case 3:
			k = 1 + g.Intn(4)
		case 4:
			k = 1 + g.Intn(9)
		default:
			k = 3
		}
		if i+k > len(deps) {
			k = len(deps) - i
		}
		b := aggsync.Block{Num: num, Hash: world.BlockHash(salt, num)}
		for p, d := range deps[i : i+k] {
			c := *d
			c.BlockNum, c.BlockPos = num, uint64(p*2+g.Intn(2))
			c.Amount = new(big.Int).Set(d.Amount)
			b.Events = append(b.Events, bridgesync.Event{Bridge: &c})
		}
		out = append(out, b)
		i += k
		num += uint64(1 + g.Intn(3))
		if g.Intn(4) == 0 { // an empty block in between
			out = append(out, aggsync.Block{Num: num, Hash: world.BlockHash(salt, num)})
			num++
		}
	}
	return out
}

func carryLen(i uint32) int {
	// number of trailing one bits of i = length of the carry chain when leaf i+1 ... is appended
	n := 0
	for i&1 == 1 {
		n++
		i >>= 1
	}
	return n
}

// c01Feed feeds the partitioned deposits to a fresh store with restarts after every j-th block,
// then checks every root / look-up against wantRoots
func c01Feed(r *mon.Run, caseID string, sc any, g *rand.Rand, deps []*bridgesync.Bridge, wantRoots []common.Hash, mode, restartEvery int, oracle string) {
	blocks := c01Partition(g, deps, mode, 7)
	// in a third of the restart-free runs the store sits on the fault-injecting driver: some blocks
	// fail once at a random storage statement and are processed again (what the driver does); the
	// roots must be the contract's all the same
	faulty := restartEvery == 0 && g.Intn(3) == 0
	var s *store
	var err error
	if faulty {
		s, err = newFaultStore("bridge", "c01f")
	} else {
		s, err = newStore("bridge", "c01")
	}
	if err != nil {
		r.Inconclusive("cannot open store: " + err.Error())
		return
	}
	defer func() { s.Close() }()
	restarts := 0
	for bi, b := range blocks {
		if restartEvery > 0 && bi > 0 && bi%restartEvery == 0 {
			ns, err := s.reopen()
			if err != nil {
				r.Violation("C01:reopen-error", caseID, err.Error(), sc)
				return
			}
			s = ns
			restarts++
		}
		if faulty && g.Intn(3) == 0 {
			s.Fault.OnlyInTx(true)
			if g.Intn(4) == 0 {
				s.Fault.ArmCommit()
			} else {
				s.Fault.Arm(1+g.Intn(40), false)
			}
			err := s.Process(cloneBlock("bridge", b))
			_, _, _ = s.Fault.Disarm()
			if err == nil {
				continue
			}
			r.Add("blocks_failed_once_then_retried", 1)
		}
		if err := s.Process(b); err != nil {
			r.Violation("C01:process-error", caseID, fmt.Sprintf("ProcessBlock(%d): %v", b.Num, err), sc)
			return
		}
	}
	f := s.Facade.(*bridgesync.BridgeSync)
	ctx := context.Background()
	for i, want := range wantRoots {
		got, err := f.GetExitRootByIndex(ctx, uint32(i))
		if err != nil {
			r.Violation("C01:root-missing", caseID, fmt.Sprintf("GetExitRootByIndex(%d): %v", i, err), sc)
			return
		}
		if got.Hash != want || got.Index != uint32(i) {
			r.Violation("C01:root-differs-from-"+oracle, caseID,
				fmt.Sprintf("deposit count %d of %d (partition mode %d, restart every %d blocks): node root %s (index %d), %s root %s", i, len(deps), mode, restartEvery, got.Hash.Hex(), got.Index, oracle, want.Hex()), sc)
			return
		}
		rt, err := f.GetRootByLER(ctx, want)
		if err != nil || rt.Index != uint32(i) {
			r.Violation("C01:root-lookup-by-hash", caseID, fmt.Sprintf("GetRootByLER(root of deposit %d) = %+v, %v", i, rt, err), sc)
			return
		}
		r.Eval(fmt.Sprintf("%s/carry=%d/mode=%d/restart=%v", oracle, min(carryLen(uint32(i)), 6), mode, restartEvery > 0))
	}
	// the deposits are served back field by field
	got, err := f.GetBridges(ctx, 0, blocks[len(blocks)-1].Num)
	if err != nil || len(got) != len(deps) {
		r.Violation("C01:bridges-not-served", caseID, fmt.Sprintf("GetBridges returned %d of %d deposits, err=%v", len(got), len(deps), err), sc)
		return
	}
	for i := range got {
		d := deps[i]
		x := got[i]
		if x.DepositCount != d.DepositCount || x.LeafType != d.LeafType || x.OriginNetwork != d.OriginNetwork || x.OriginAddress != d.OriginAddress ||
			x.DestinationNetwork != d.DestinationNetwork || x.DestinationAddress != d.DestinationAddress || x.Amount.Cmp(d.Amount) != 0 ||
			string(x.Metadata) != string(d.Metadata) {
			r.Violation("C01:deposit-fields-altered", caseID, fmt.Sprintf("deposit %d read back as %+v, was %+v", i, x, *d), sc)
			return
		}
		if x.Hash() != world.BridgeLeafOf(d) {
			r.Violation("C01:leaf-of-stored-deposit", caseID, fmt.Sprintf("leaf of deposit %d after a round trip through the store differs from the contract's leaf value", i), sc)
			return
		}
	}
	r.Add("restarts", restarts)
}

func TestC01(t *testing.T) {
	r := mon.Start("C01", "exploration")
	r.Rule("(a) deposit sequences executed by the real bridge bytecode in an in-process EVM (root read after every deposit), fed to the node under 6 block partitions x restart schedules; " +
		"(b) longer PRNG sequences against the reference frontier (validated against the EVM in (a)); (c) pure leaf tuples incl. extreme values against getLeafValue; " +
		"(d) synthetic pre-states of N constant leaves for N around 2^k, real appends across the boundary; signature = (oracle, carry-chain length of the index, partition mode, restarted y/n) etc.")
	r.Assume("ERC-20 metadata is produced by bridgeMessage with arbitrary bytes (the tree only sees its hash)",
		"high indices are reached through a synthetic pre-state computed by the reference, not by 2^k real appends")
	workers := runtime.NumCPU()
	var refVsEVM atomic.Int64

	// ---- (a) EVM sequences --------------------------------------------------------------------
	nSeq := r.N(16, 160)
	maxDep := r.N(40, 160)
	parallel(nSeq, workers, func(i int) {
		caseID := fmt.Sprintf("evm/%d", i)
		if !r.Only(caseID) {
			return
		}
		g := rng(r, "evm", i)
		sc := map[string]any{"sequence": i}
		guard(r, caseID, sc, func() {
			l1, err := evm.NewL1()
			if err != nil {
				r.Inconclusive("cannot start the in-process EVM: " + err.Error())
				return
			}
			defer l1.Close()
			n := 1 + g.Intn(maxDep)
			var deps []*bridgesync.Bridge
			var roots []common.Hash
			var fr ref.Frontier
			for k := 0; k < n; k++ {
				asMsg := g.Intn(2) == 0
				var md []byte
				if asMsg {
					md = world.RandMetadata(g)
				}
				amt := big.NewInt(0)
				switch g.Intn(4) {
				case 0:
				case 1:
					amt = big.NewInt(1)
				case 2:
					amt = new(big.Int).Lsh(big.NewInt(1), uint(64+g.Intn(100)))
				default:
					amt = big.NewInt(g.Int63())
				}
				if !asMsg && amt.Sign() == 0 {
					amt = big.NewInt(1)
				}
				tx, err := l1.Deposit(uint32(1+g.Intn(5)), world.RandAddr(g), amt, md, asMsg, false)
				if err != nil {
					r.Inconclusive("deposit not accepted by the EVM: " + err.Error())
					return
				}
				if _, err := l1.Commit(); err != nil {
					r.Inconclusive(err.Error())
					return
				}
				rc, err := l1.Receipt(tx)
				if err != nil {
					r.Inconclusive("deposit reverted in the EVM: " + err.Error())
					return
				}
				var ev *bridgesync.Bridge
				for _, lg := range rc.Logs {
					if be, err := l1.Bridge.ParseBridgeEvent(*lg); err == nil {
						ev = &bridgesync.Bridge{LeafType: be.LeafType, OriginNetwork: be.OriginNetwork, OriginAddress: be.OriginAddress,
							DestinationNetwork: be.DestinationNetwork, DestinationAddress: be.DestinationAddress, Amount: be.Amount,
							Metadata: be.Metadata, DepositCount: be.DepositCount, TxHash: lg.TxHash, FromAddress: l1.Auth.From}
					}
				}
				if ev == nil || ev.DepositCount != uint32(k) {
					r.Inconclusive("no BridgeEvent with the expected deposit count in the receipt")
					return
				}
				root, err := l1.Bridge.GetRoot(nil)
				if err != nil {
					r.Inconclusive(err.Error())
					return
				}
				// contract leaf value vs node leaf vs reference
				cl, err := l1.Bridge.GetLeafValue(nil, ev.LeafType, ev.OriginNetwork, ev.OriginAddress, ev.DestinationNetwork, ev.DestinationAddress, ev.Amount, crypto.Keccak256Hash(ev.Metadata))
				if err != nil {
					r.Inconclusive(err.Error())
					return
				}
				if ev.Hash() != common.Hash(cl) {
					r.Violation("C01:leaf-differs-from-contract", caseID, fmt.Sprintf("deposit %d: node leaf %s, contract getLeafValue %s", k, ev.Hash().Hex(), common.Hash(cl).Hex()), sc)
					return
				}
				fr.Add(world.BridgeLeafOf(ev))
				if fr.Root() != common.Hash(root) || world.BridgeLeafOf(ev) != common.Hash(cl) {
					r.Inconclusive(fmt.Sprintf("reference model disagrees with the contract bytecode at deposit %d", k))
					return
				}
				refVsEVM.Add(2)
				deps = append(deps, ev)
				roots = append(roots, common.Hash(root))
			}
			for mode := 0; mode < 6; mode++ {
				for _, re := range []int{0, 1, 1 + g.Intn(4)} {
					c01Feed(r, caseID, sc, g, deps, roots, mode, re, "contract")
				}
			}
			if i < 3 {
				r.Sample(map[string]any{"kind": "evm sequence", "deposits": n, "last_contract_root": roots[n-1].Hex(), "first_deposit": fmt.Sprintf("%+v", *deps[0])})
			}
		})
	})

	// ---- (b) longer sequences against the reference -------------------------------------------
	nRef := r.N(30, 400)
	maxRef := r.N(120, 400)
	parallel(nRef, workers, func(i int) {
		caseID := fmt.Sprintf("ref/%d", i)
		if !r.Only(caseID) {
			return
		}
		g := rng(r, "ref", i)
		sc := map[string]any{"sequence": i}
		guard(r, caseID, sc, func() {
			n := 1 + g.Intn(maxRef)
			var deps []*bridgesync.Bridge
			var roots []common.Hash
			var fr ref.Frontier
			for k := 0; k < n; k++ {
				d := world.RandBridge(g, uint32(k))
				if g.Intn(10) == 0 && k > 1 { // repeated identical deposits (same leaf twice)
					c := *deps[g.Intn(k)]
					c.DepositCount = uint32(k)
					d = &c
				}
				deps = append(deps, d)
				fr.Add(world.BridgeLeafOf(d))
				roots = append(roots, fr.Root())
			}
			mode := g.Intn(6)
			re := []int{0, 1, 2, 1 + g.Intn(6)}[g.Intn(4)]
			c01Feed(r, caseID, sc, g, deps, roots, mode, re, "reference")
		})
	})

	// ---- (c) pure leaf tuples -----------------------------------------------------------------
	if r.Only("leaf") {
		l1, err := evm.NewL1()
		if err != nil {
			r.Inconclusive("cannot start the in-process EVM: " + err.Error())
		} else {
			g := rng(r, "leaf", 0)
			nLeaf := r.N(3000, 100_000)
			nEVM := r.N(400, 5000)
			maxAmt := new(big.Int).Sub(new(big.Int).Lsh(big.NewInt(1), 256), big.NewInt(1))
			for k := 0; k < nLeaf; k++ {
				b := world.RandBridge(g, uint32(k))
				b.LeafType = uint8(g.Intn(256))
				if g.Intn(5) == 0 {
					b.LeafType = uint8(g.Intn(2))
				}
				if g.Intn(8) == 0 {
					b.Amount = new(big.Int).Set(maxAmt)
				}
				if g.Intn(16) == 0 {
					b.Amount = nil
				}
				want := ref.BridgeLeaf(b.LeafType, b.OriginNetwork, b.OriginAddress, b.DestinationNetwork, b.DestinationAddress, b.Amount, b.Metadata)
				amtClass := "mid"
				if b.Amount == nil || b.Amount.Sign() == 0 {
					amtClass = "zero"
				} else if b.Amount.Cmp(maxAmt) == 0 {
					amtClass = "max"
				}
				if k < nEVM {
					amt := b.Amount
					if amt == nil {
						amt = big.NewInt(0)
					}
					cl, err := l1.Bridge.GetLeafValue(nil, b.LeafType, b.OriginNetwork, b.OriginAddress, b.DestinationNetwork, b.DestinationAddress, amt, crypto.Keccak256Hash(b.Metadata))
					if err != nil {
						r.Inconclusive(err.Error())
						break
					}
					if common.Hash(cl) != want {
						r.Inconclusive("reference leaf disagrees with the contract's getLeafValue")
						break
					}
					refVsEVM.Add(1)
				}
				if got := b.Hash(); got != want {
					r.Violation("C01:leaf-differs-from-contract", fmt.Sprintf("leaf/%d", k),
						fmt.Sprintf("leaf of %+v: node %s, contract/reference %s", *b, got.Hex(), want.Hex()), map[string]any{"bridge": fmt.Sprintf("%+v", *b)})
					break
				}
				mdc := "long"
				switch {
				case len(b.Metadata) == 0:
					mdc = "empty"
				case len(b.Metadata) <= 32:
					mdc = "short"
				}
				r.Eval(fmt.Sprintf("leaf/type=%d/amt=%s/md=%s", min(int(b.LeafType), 2), amtClass, mdc))
			}
			l1.Close()
		}
	}

	// ---- (d) high indices through synthetic pre-states ------------------------------------------
	var ns []uint64
	for k := 7; k <= 31; k++ {
		ns = append(ns, 1<<uint(k)-2, 1<<uint(k)-1, 1<<uint(k))
	}
	if r.Quick() {
		g := rng(r, "hi-pick", 0)
		g.Shuffle(len(ns), func(a, b int) { ns[a], ns[b] = ns[b], ns[a] })
		ns = append(ns[:26], 1<<31-1, 1<<31, 1<<16-1, 1<<8)
	}
	gx := rng(r, "hi-rand", 0)
	for k := 0; k < r.N(6, 60); k++ {
		ns = append(ns, uint64(gx.Int63n(1<<32-100)))
	}
	kLeaves := r.N(8, 40)
	parallel(len(ns), workers, func(i int) {
		n := ns[i]
		caseID := fmt.Sprintf("hi/%d", n)
		if !r.Only(caseID) {
			return
		}
		g := rng(r, "hi", i)
		sc := map[string]any{"pre_state_leaves": n}
		guard(r, caseID, sc, func() {
			s, err := newStore("bridge", "c01hi")
			if err != nil {
				r.Inconclusive("cannot open store: " + err.Error())
				return
			}
			defer func() { s.Close() }()
			cl := world.RandHash(g)
			preRoot, err := seedConstTree(s.DB, "", cl, n, 1)
			if err != nil {
				r.Inconclusive("cannot seed the pre-state: " + err.Error())
				return
			}
			fr := ref.ConstFrontier(cl, n)
			if fr.Root() != preRoot {
				r.Inconclusive("pre-state root and reference frontier disagree")
				return
			}
			restart := g.Intn(2) == 0
			var deps []*bridgesync.Bridge
			var roots []common.Hash
			for k := 0; k < kLeaves; k++ {
				d := world.RandBridge(g, uint32(n)+uint32(k))
				deps = append(deps, d)
				fr.Add(world.BridgeLeafOf(d))
				roots = append(roots, fr.Root())
			}
			num := uint64(2)
			i := 0
			for i < len(deps) {
				k := 1 + g.Intn(3)
				if i+k > len(deps) {
					k = len(deps) - i
				}
				b := aggsync.Block{Num: num, Hash: world.BlockHash(1, num)}
				for p, d := range deps[i : i+k] {
					c := *d
					c.BlockNum, c.BlockPos = num, uint64(p)
					b.Events = append(b.Events, bridgesync.Event{Bridge: &c})
				}
				if restart && i > 0 && g.Intn(2) == 0 {
					if s, err = s.reopen(); err != nil {
						r.Violation("C01:reopen-error", caseID, err.Error(), sc)
						return
					}
				}
				if err := s.Process(b); err != nil {
					r.Violation("C01:high-index:process-error", caseID, fmt.Sprintf("appending deposit count %d after a pre-state of %d leaves: %v", d0(deps[i]), n, err), sc)
					return
				}
				i += k
				num++
			}
			f := s.Facade.(*bridgesync.BridgeSync)
			for k, want := range roots {
				idx := uint32(n) + uint32(k)
				got, err := f.GetExitRootByIndex(context.Background(), idx)
				if err != nil || got.Hash != want {
					r.Violation("C01:high-index:root-differs-from-reference", caseID,
						fmt.Sprintf("deposit count %d (pre-state %d = 0x%x leaves): node root %s err=%v, reference %s", idx, n, n, got.Hash.Hex(), err, want.Hex()), sc)
					return
				}
				// and the proof of the new leaf verifies (C08 at high indices)
				proof, err := f.GetProof(context.Background(), idx, want)
				if err != nil || ref.VerifyProof(world.BridgeLeafOf(deps[k]), proof, idx) != want {
					r.Violation("C01:high-index:proof-does-not-verify", caseID, fmt.Sprintf("GetProof(%d, root) does not hash to the root (err=%v)", idx, err), sc)
					return
				}
				r.Eval(fmt.Sprintf("hi/carry=%d/restart=%v", min(carryLen(idx), 31), restart))
			}
		})
	})
	r.Set("ref_vs_evm_comparisons", int(refVsEVM.Load()))
	if refVsEVM.Load() == 0 && !r.Replaying() {
		r.Inconclusive("the reference models were not validated against the contract bytecode in this run")
	}
	finish(t, r, r.N(60, 120), "contract/*", "reference/*", "leaf/*", "hi/*")
}

func d0(b *bridgesync.Bridge) uint32 { return b.DepositCount }
