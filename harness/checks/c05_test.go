package checks

import (
	"context"
	"errors"
	"fmt"
	"math/big"
	"math/rand"
	"os"
	"runtime"
	"strings"
	"sync"
	"testing"
	"time"

	aggsync "github.com/agglayer/aggkit/sync"
	aggkittypes "github.com/agglayer/aggkit/types"
	"github.com/ethereum/go-ethereum"
	"github.com/ethereum/go-ethereum/common"
	"verifharness/fakes"
	"verifharness/mon"
)

// C05 — syncers deliver every watched event exactly once, in chain order.

// c05Judge checks a delivered block sequence against the canonical chain. `delivered` are the
// blocks handed over in order (downloader channel or successful ProcessBlock calls); `upTo` is
// the highest block the syncer is allowed to know (tip for its finality). final=true adds the
// quiescence clauses.
func c05Judge(canon []*fakes.SimBlock, delivered []procCall, upTo uint64, final bool) (sig, what string) {
	prev := uint64(0)
	for i, d := range delivered {
		if d.Num <= prev && !(i == 0 && d.Num == 0) {
			return "C05:block-order-or-duplicate", fmt.Sprintf("block %d handed over after block %d", d.Num, prev)
		}
		if d.Num >= uint64(len(canon)) {
			return "C05:block-beyond-tip", fmt.Sprintf("block %d handed over but the chain ends at %d", d.Num, len(canon)-1)
		}
		cb := canon[d.Num]
		if d.Hash != cb.Hash() {
			return "C05:wrong-block-hash", fmt.Sprintf("block %d handed over with hash %s, canonical %s", d.Num, d.Hash.Hex()[:10], cb.Hash().Hex()[:10])
		}
		want := watchedEventsOf(cb)
		if strings.Join(want, ",") != strings.Join(d.Events, ",") {
			return "C05:events-of-block-differ", fmt.Sprintf("block %d handed over with events %v, canonical watched logs %v", d.Num, d.Events, want)
		}
		for n := prev + 1; n < d.Num; n++ {
			if len(watchedEventsOf(canon[n])) > 0 {
				return "C05:marker-passed-undelivered-event-block", fmt.Sprintf("block %d handed over right after %d, but block %d in between carries %d watched events", d.Num, prev, n, len(watchedEventsOf(canon[n])))
			}
		}
		prev = d.Num
	}
	if final {
		for n := prev + 1; n <= upTo && n < uint64(len(canon)); n++ {
			if len(watchedEventsOf(canon[n])) > 0 {
				return "C05:event-block-never-delivered", fmt.Sprintf("at quiescence block %d (<= tip %d) with %d watched events was never handed over (last handed over: %d)", n, upTo, len(watchedEventsOf(canon[n])), prev)
			}
		}
	}
	return "", ""
}

type c05Static struct {
	StaleCalls int    `json:"stale_log_view_calls"` // FilterLogs answers served from a sibling fork of the non-finalized suffix
	N          int    `json:"blocks"`
	Pattern    int    `json:"event_block_bitmask"`
	Chunk      uint64 `json:"chunk"`
	Finalized  uint64 `json:"finalized"`
	Finality   string `json:"block_finality"`
	Safe       uint64 `json:"safe"`
}

func finalityOf(s string) aggkittypes.BlockNumberFinality {
	switch s {
	case "safe":
		return aggkittypes.SafeBlock
	case "finalized":
		return aggkittypes.FinalizedBlock
	}
	return aggkittypes.LatestBlock
}

// c05RunStatic runs the real downloader's Download on a static chain until it idles
func c05RunStatic(sc c05Static, g *rand.Rand) (canon []*fakes.SimBlock, delivered []procCall, upTo uint64, idle bool, err error) {
	ch := fakes.NewChain(1)
	for n := 1; n <= sc.N; n++ {
		k := 0
		if sc.Pattern&(1<<(n-1)) != 0 {
			k = 1 + g.Intn(2)
		}
		ch.Mine(genericLogs(g, k, true))
	}
	ch.SetFinalized(sc.Finalized)
	ch.SetSafe(sc.Safe)
	if sc.StaleCalls > 0 {
		ch.ServeLogsFromStaleView(fakes.SiblingView(ch, 7), sc.StaleCalls)
	}
	w := &pollWatcher{}
	ch.Hook = func(c *fakes.Chain, m string, a any) error { w.observe(m, a); return nil }
	rh := &aggsync.RetryHandler{RetryAfterErrorPeriod: time.Millisecond, MaxRetryAttemptsAfterError: -1}
	d, err := aggsync.NewEVMDownloader("verif", ch.Client(), sc.Chunk, finalityOf(sc.Finality), 300*time.Microsecond,
		watchedAppender(), []common.Address{watchedAddr}, rh, aggkittypes.FinalizedBlock)
	if err != nil {
		return nil, nil, 0, false, err
	}
	ctx, cancel := context.WithCancel(context.Background())
	out := make(chan aggsync.EVMBlock, 256)
	go d.Download(ctx, 1, out)
	idle = w.waitIdle(4, 20*time.Second)
	if sc.StaleCalls > 0 && idle {
		// after an inconsistent-backend episode the downloader may legitimately be waiting for the
		// next block before it asks again: the chain "keeps growing" by one empty block, then the
		// end state is judged
		ch.Mine(nil)
		sc.N++
		w.idle.Store(0)
		idle = w.waitIdle(4, 20*time.Second)
	}
	cancel()
	for b := range out {
		c := procCall{Op: "process", Num: b.Num, Hash: b.Hash}
		for _, e := range b.Events {
			c.Events = append(c.Events, fmt.Sprint(e))
		}
		delivered = append(delivered, c)
	}
	switch sc.Finality {
	case "safe":
		upTo = max(sc.Safe, sc.Finalized)
	case "finalized":
		upTo = sc.Finalized
	default:
		upTo = uint64(sc.N)
	}
	return ch.Canonical(), delivered, upTo, idle, nil
}

func TestC05(t *testing.T) {
	r := mon.Start("C05", "exploration")
	r.Rule("(i) exhaustive small scope: the real EVMDownloader.Download on every static chain of <= K blocks (which blocks carry watched logs) x chunk size 1..8 x finalized pointer 0..tip x block finality; " +
		"(ii) dynamic: real downloader + real driver over a chain that grows / finalizes between RPC calls, transient RPC errors, transient processor errors, inconsistent log/header backends; " +
		"(iii) the real l1infotreesync syncer over the same simulator, store content vs reference; signature = (campaign, Download branch pattern, chunk-vs-gap class, finalized position class, ...)")
	r.Assume("finalized blocks are never reorged (the repository's assumption); no reorgs in C05 (they are C06's subject)",
		"quiescence of the free-running downloader = consecutive head polls without any other RPC; a verdict that depends on quiescence is re-evaluated before it counts")
	workers := runtime.NumCPU()

	// ---- (i) exhaustive static chains ----------------------------------------------------------
	maxN := r.N(6, 8)
	var cases []c05Static
	for n := 1; n <= maxN; n++ {
		for pat := 0; pat < 1<<n; pat++ {
			for chunk := uint64(1); chunk <= 8; chunk++ {
				if r.Quick() && chunk > 3 && chunk != 8 && chunk != uint64(n) {
					continue
				}
				for f := uint64(0); f <= uint64(n); f++ {
					cases = append(cases, c05Static{N: n, Pattern: pat, Chunk: chunk, Finalized: f, Finality: "latest", Safe: f})
				}
			}
		}
	}
	// inconsistent backends on a static chain: the non-finalized suffix's logs come from a sibling
	// fork for the first k FilterLogs calls (k around the downloader's retry limit)
	for n := 2; n <= min(maxN, 6); n++ {
		for pat := 1; pat < 1<<n; pat++ {
			for f := uint64(0); f < uint64(n); f++ {
				for _, k := range []int{1, 5, 6, 7, 8} {
					cases = append(cases, c05Static{N: n, Pattern: pat, Chunk: uint64(n + 2), Finalized: f, Finality: "latest", Safe: f, StaleCalls: k})
				}
			}
		}
	}
	// other finalities on a sample
	gs := rng(r, "static-fin", 0)
	for k := 0; k < r.N(300, 6000); k++ {
		n := 1 + gs.Intn(maxN)
		f := uint64(gs.Intn(n + 1))
		s := f + uint64(gs.Intn(n+1-int(f)))
		cases = append(cases, c05Static{N: n, Pattern: gs.Intn(1 << n), Chunk: uint64(1 + gs.Intn(8)), Finalized: f, Safe: s, Finality: []string{"safe", "finalized"}[gs.Intn(2)]})
	}
	r.Set("static_cases", len(cases))
	parallel(len(cases), workers*2, func(i int) {
		sc := cases[i]
		caseID := fmt.Sprintf("static/%d", i)
		if !r.Only(caseID) {
			return
		}
		guard(r, caseID, sc, func() {
			g := rng(r, "static", i)
			canon, delivered, upTo, idle, err := c05RunStatic(sc, g)
			if err != nil {
				r.Inconclusive("cannot build downloader: " + err.Error())
				return
			}
			if !idle {
				r.Inconclusive(fmt.Sprintf("downloader did not reach quiescence on static case %d within the watchdog", i))
				return
			}
			if sig, what := c05Judge(canon, delivered, upTo, true); sig != "" {
				if sc.StaleCalls > 0 {
					sig += fmt.Sprintf(":inconsistent-backends-burst>=%d", min(sc.StaleCalls, 6)/6*6)
				}
				r.Violation(sig+":static", caseID, fmt.Sprintf("%+v: %s; delivered %s", sc, what, summarizeCalls(delivered, 20)), map[string]any{"case": sc, "delivered": summarizeCalls(delivered, 40)})
				return
			}
			gapc := "none"
			if sc.Pattern != 0 {
				// largest gap between consecutive event blocks vs chunk
				last, mg := 0, 0
				for n := 1; n <= sc.N; n++ {
					if sc.Pattern&(1<<(n-1)) != 0 {
						if n-last > mg {
							mg = n - last
						}
						last = n
					}
				}
				if uint64(mg) > sc.Chunk {
					gapc = "gap>chunk"
				} else {
					gapc = "gap<=chunk"
				}
			}
			fc := "mid"
			if sc.Finalized == 0 {
				fc = "none"
			} else if sc.Finalized == uint64(sc.N) {
				fc = "tip"
			}
			r.Eval(fmt.Sprintf("static/%s/fin=%s/%s/delivered=%d/stale=%d", sc.Finality, fc, gapc, min(len(delivered), 4), sc.StaleCalls))
		})
	})
	r.Exhaustive(false)
	r.Set("static_box", fmt.Sprintf("every chain of 1..%d blocks (bitmask of event blocks) x chunk x finalized 0..tip with LatestBlock finality; sampled Safe/Finalized finalities", maxN))

	// ---- (ii) dynamic, through the real driver -------------------------------------------------
	nDyn := r.N(400, 6000)
	parallel(nDyn, workers, func(i int) {
		caseID := fmt.Sprintf("dyn/%d", i)
		if !r.Only(caseID) {
			return
		}
		g := rng(r, "dyn", i)
		c05Dynamic(r, caseID, g)
	})

	// ---- (iii) the real L1 info tree syncer ----------------------------------------------------
	nL1 := r.N(60, 800)
	parallel(nL1, workers, func(i int) {
		caseID := fmt.Sprintf("l1sync/%d", i)
		if !r.Only(caseID) {
			return
		}
		g := rng(r, "l1sync", i)
		c05L1Sync(r, caseID, g)
	})
	// with a fork of already delivered, non-finalized blocks (plane shared with C06): the events of
	// the final chain must end up delivered exactly once, in order, none of the dropped fork left
	nFork := r.N(8, 80)
	parallel(nFork, workers, func(i int) {
		caseID := fmt.Sprintf("fork/%d", i)
		if !r.Only(caseID) {
			return
		}
		c06Rewind(r, caseID, rng(r, "c05fork", i), true)
	})
	r.Set("removed_twin_logs_served_after_their_valid_copy", int(twinLogs.Load()))
	if twinLogs.Load() == 0 && !r.Replaying() {
		r.Inconclusive("no removed twin log was generated")
	}
	finish(t, r, r.N(40, 80), "static/*", "dyn/*", "l1sync/*", "rewind/replace*")
}

type c05Dyn struct {
	Target     int     `json:"target_blocks"`
	Chunk      uint64  `json:"chunk"`
	Buffer     int     `json:"download_buffer"`
	Lag        int     `json:"finality_lag"` // -1: never finalize
	EventPct   int     `json:"event_block_pct"`
	ErrPct     int     `json:"rpc_error_pct"`
	MaxJump    int     `json:"max_tip_jump"`
	ProcFaults int     `json:"processor_faults"`
	StaleBurst int     `json:"inconsistent_backend_burst"`
	NotFound   int     `json:"header_not_found_burst"`
	GrowEvery  int     `json:"grow_every_n_calls"`
	Finality   string  `json:"block_finality"`
	Seed       float64 `json:"-"`
}

func c05Dynamic(r *mon.Run, caseID string, g *rand.Rand) {
	sc := c05Dyn{
		Target:   40 + g.Intn(r.N(120, 360)),
		Chunk:    uint64([]int{1, 2, 3, 5, 10, 50, 100}[g.Intn(7)]),
		Buffer:   []int{0, 1, 1000}[g.Intn(3)],
		Lag:      []int{0, 1, 5, 64, -1}[g.Intn(5)],
		EventPct: []int{5, 20, 50, 90}[g.Intn(4)],
		ErrPct:   []int{0, 0, 5, 20}[g.Intn(4)],
		MaxJump:  []int{1, 3, 30}[g.Intn(3)],
		Finality: []string{"latest", "latest", "safe", "finalized"}[g.Intn(4)],
	}
	if g.Intn(3) == 0 {
		sc.ProcFaults = 1 + g.Intn(3)
	}
	if g.Intn(4) == 0 && sc.Lag != 0 && sc.Finality == "latest" {
		sc.StaleBurst = 1 + g.Intn(8)
	}
	if g.Intn(4) == 0 {
		sc.NotFound = 1 + g.Intn(10)
	}
	sc.GrowEvery = []int{1, 3, 10, 30}[g.Intn(4)]
	trace := []string{}
	scen := map[string]any{"config": sc, "trace": &trace}
	guard(r, caseID, scen, func() {
		ch := fakes.NewChain(1)
		w := &pollWatcher{}
		var hmu sync.Mutex // the hook's PRNG is shared by the node's goroutines
		growing := true
		staleLeft := sc.StaleBurst
		nfArmed, nfLeft := sc.NotFound > 0, 0
		mine := func(c *fakes.Chain, k int) {
			for j := 0; j < k; j++ {
				ne := 0
				if g.Intn(100) < sc.EventPct {
					ne = 1 + g.Intn(3)
				}
				c.Mine(genericLogs(g, ne, true))
			}
		}
		advanceFinality := func(c *fakes.Chain) {
			if sc.Lag < 0 {
				return
			}
			head := c.Latest()
			if head > uint64(sc.Lag) {
				tgt := head - uint64(sc.Lag)
				cur := c.Finalized()
				if tgt > cur {
					c.SetFinalized(cur + 1 + uint64(g.Intn(int(tgt-cur))))
				}
			}
			c.SetSafe(c.Finalized() + uint64(g.Intn(int(head-c.Finalized())+1)))
		}
		ch.Hook = func(c *fakes.Chain, m string, a any) error {
			w.observe(m, a)
			hmu.Lock()
			defer hmu.Unlock()
			// a lagging header backend: an existing block is "not found" for k consecutive calls
			if n, isNum := a.(*big.Int); m == "HeaderByNumber" && isNum && n != nil && n.Sign() >= 0 {
				if nfArmed && g.Intn(3) == 0 {
					nfArmed, nfLeft = false, sc.NotFound
				}
				if nfLeft > 0 {
					nfLeft--
					return ethereum.NotFound
				}
			}
			if growing {
				if g.Intn(sc.GrowEvery) == 0 {
					mine(c, g.Intn(sc.MaxJump+1))
				}
				if g.Intn(3) == 0 {
					advanceFinality(c)
				}
				if int(c.Latest()) >= sc.Target {
					growing = false
					advanceFinality(c)
				}
				// inconsistent backends: logs of the non-finalized suffix come from a sibling fork
				// for the next k FilterLogs calls (headers stay canonical)
				if staleLeft > 0 && m == "FilterLogs" && c.Latest() > c.Finalized()+2 && g.Intn(4) == 0 {
					stale := fakes.SiblingView(c, g.Intn(1<<30))
					c.ServeLogsFromStaleView(stale, staleLeft)
					staleLeft = 0
				}
				if g.Intn(100) < sc.ErrPct {
					return errors.New("injected transient RPC error")
				}
			}
			return nil
		}
		mine(ch, 1+g.Intn(5))
		rh := &aggsync.RetryHandler{RetryAfterErrorPeriod: 200 * time.Microsecond, MaxRetryAttemptsAfterError: -1}
		d, err := aggsync.NewEVMDownloader("verif", ch.Client(), sc.Chunk, finalityOf(sc.Finality), 300*time.Microsecond,
			watchedAppender(), []common.Address{watchedAddr}, rh, aggkittypes.FinalizedBlock)
		if err != nil {
			r.Inconclusive("cannot build downloader: " + err.Error())
			return
		}
		p := &memProc{failPlan: map[uint64]int{}}
		var online struct {
			sync.Mutex
			sig, what string
		}
		p.onOK = func(c procCall) {
			// online: order / duplicates only (content is judged against the final chain, which
			// only ever grows in C05)
			n := len(p.blocks)
			if n >= 2 && p.blocks[n-2].Num >= c.Num {
				online.Lock()
				if online.sig == "" {
					online.sig, online.what = "C05:block-order-or-duplicate", fmt.Sprintf("ProcessBlock(%d) succeeded after block %d", c.Num, p.blocks[n-2].Num)
				}
				online.Unlock()
			}
		}
		if sc.ProcFaults > 0 {
			for k := 0; k < 6; k++ {
				p.failPlan[uint64(1+g.Intn(sc.Target))] = sc.ProcFaults
			}
		}
		drv, err := aggsync.NewEVMDriver(newFakeRD(), p, d, "verif", sc.Buffer, rh, false)
		if err != nil {
			r.Inconclusive("cannot build driver: " + err.Error())
			return
		}
		ctx, cancel := context.WithCancel(context.Background())
		done := make(chan struct{})
		go func() { drv.Sync(ctx); close(done) }()
		// wait until growth stopped and the downloader idles
		ok := false
		deadline := time.Now().Add(60 * time.Second)
		for time.Now().Before(deadline) {
			hmu.Lock()
			gr := growing
			hmu.Unlock()
			if !gr && w.waitIdle(6, 200*time.Millisecond) {
				ok = true
				break
			}
			time.Sleep(time.Millisecond)
		}
		if ok && sc.StaleBurst > 0 {
			// same rule as in the static plane: after an inconsistent-backend answer the downloader
			// legitimately waits for the next block before it asks again. Answers of the stale burst
			// may still be pending when growth stops, so the chain keeps growing by one empty block
			// per pending answer (+1): a node that recovers delivers everything, one that lost a
			// block still has lost it
			for k := 0; k <= sc.StaleBurst; k++ {
				hmu.Lock()
				ch.Mine(nil)
				hmu.Unlock()
				w.idle.Store(0)
				if !w.waitIdle(6, 2*time.Second) {
					break
				}
			}
		}
		var sig, what string
		var delivered, calls []procCall
		canon := ch.Canonical()
		upTo := ch.Latest()
		switch sc.Finality {
		case "safe":
			upTo = 0 // safe pointer: judged below through the chain state
		case "finalized":
			upTo = ch.Finalized()
		}
		if sc.Finality == "safe" {
			// the syncer follows the safe pointer
			hd, _ := ch.Client().HeaderByNumber(context.Background(), bigInt(-4))
			if hd != nil {
				upTo = hd.Number.Uint64()
			}
		}
		// re-evaluation rule: an apparent end-state mismatch is re-checked for up to 10 s
		for tries := 0; tries < 2000; tries++ {
			delivered, calls = p.snapshot()
			sig, what = c05Judge(canon, delivered, upTo, true)
			if sig == "" || !strings.Contains(sig, "never-delivered") {
				break
			}
			time.Sleep(5 * time.Millisecond)
		}
		cancel()
		<-done
		online.Lock()
		if online.sig != "" {
			sig, what = online.sig, online.what
		}
		online.Unlock()
		if !ok && sig == "" {
			r.Inconclusive("dynamic scenario did not reach quiescence within the watchdog")
			return
		}
		trace = append(trace, "calls: "+summarizeCalls(calls, 60))
		ev := ch.Events()
		if os.Getenv("VERIF_DEBUG_DIR") != "" {
			// keep everything except the idle polling of the tip
			var keep []string
			for _, e := range ev {
				if !strings.Contains(e, "HeaderByNumber(latest)") {
					keep = append(keep, e)
				}
			}
			ev = keep
		} else if len(ev) > 120 {
			ev = ev[len(ev)-120:]
		}
		scen["chain_events_tail"] = ev
		if sig != "" {
			cls := ""
			if sc.StaleBurst > 0 {
				cls = fmt.Sprintf(":inconsistent-backends-burst>=%d", min(sc.StaleBurst, 6)/6*6)
			}
			r.Violation(sig+":dynamic"+cls, caseID, fmt.Sprintf("%+v: %s", sc, what), scen)
			return
		}
		nev := 0
		for _, d := range delivered {
			nev += len(d.Events)
		}
		r.Eval(fmt.Sprintf("dyn/%s/chunk=%d/buf=%d/lag=%d/err=%v/procfault=%v/stale=%v/nf=%v/jump=%d/grow=%d", sc.Finality, min(int(sc.Chunk), 10), min(sc.Buffer, 2), sc.Lag, sc.ErrPct > 0, sc.ProcFaults > 0, sc.StaleBurst > 0, sc.NotFound > 0, sc.MaxJump, sc.GrowEvery))
		r.Add("dynamic_events_delivered", nev)
		r.Add("dynamic_blocks_delivered", len(delivered))
		if nev > 0 {
			r.Sample(map[string]any{"config": sc, "blocks_delivered": len(delivered), "events_delivered": nev, "chain_head": ch.Latest(), "rpc_calls": ch.Calls()})
		}
	})
}
