package checks

import (
	"context"
	"sync"

	agglayertypes "github.com/agglayer/aggkit/agglayer/types"
	"github.com/agglayer/aggkit/aggsender"
	aggsendercfg "github.com/agglayer/aggkit/aggsender/config"
	aggsenderdb "github.com/agglayer/aggkit/aggsender/db"
	"github.com/agglayer/aggkit/aggsender/flows"
	"github.com/agglayer/aggkit/aggsender/query"
	aggsendertypes "github.com/agglayer/aggkit/aggsender/types"
	"github.com/agglayer/aggkit/bridgesync"
	"github.com/agglayer/aggkit/l1infotreesync"
	"github.com/agglayer/aggkit/log"
	treetypes "github.com/agglayer/aggkit/tree/types"
	"github.com/agglayer/go_signer/signer"
	signertypes "github.com/agglayer/go_signer/signer/types"
	"github.com/ethereum/go-ethereum/common"
	"verifharness/faultdb"
	"verifharness/world"
)

// recSigner wraps the real local signer and records every hash it is asked to sign
type recSigner struct {
	signertypes.Signer
	mu     sync.Mutex
	hashes []common.Hash
}

func (r *recSigner) SignHash(ctx context.Context, h common.Hash) ([]byte, error) {
	r.mu.Lock()
	r.hashes = append(r.hashes, h)
	r.mu.Unlock()
	return r.Signer.SignHash(ctx, h)
}

func (r *recSigner) last() (common.Hash, bool) {
	r.mu.Lock()
	defer r.mu.Unlock()
	if len(r.hashes) == 0 {
		return common.Hash{}, false
	}
	return r.hashes[len(r.hashes)-1], true
}

// fakeProver is the aggchain-proof client: it "proves" up to an end block of its choice
// (sometimes fewer blocks than requested) and records every request
type fakeProver struct {
	mu       sync.Mutex
	w        *asWorld
	requests []*aggsendertypes.AggchainProofRequest
	shorten  bool
}

func (f *fakeProver) GenerateAggchainProof(ctx context.Context, req *aggsendertypes.AggchainProofRequest) (*aggsendertypes.AggchainProof, error) {
	f.mu.Lock()
	defer f.mu.Unlock()
	f.requests = append(f.requests, req)
	end := req.RequestedEndBlock
	if f.shorten && end > req.LastProvenBlock+1 && f.w.g.Intn(3) == 0 {
		end = req.LastProvenBlock + 1 + uint64(f.w.g.Intn(int(end-req.LastProvenBlock-1)))
	}
	return &aggsendertypes.AggchainProof{
		LastProvenBlock: req.LastProvenBlock, EndBlock: end, CustomChainData: []byte{1, 2, 3}, LocalExitRoot: world.RandHash(f.w.g),
		AggchainParams: world.RandHash(f.w.g), Context: map[string][]byte{"k": {9}},
		SP1StarkProof: &aggsendertypes.SP1StarkProof{Proof: []byte{7, 7}, Vkey: []byte{8}, Version: "v1"},
	}, nil
}

func (f *fakeProver) GenerateOptimisticAggchainProof(req *aggsendertypes.AggchainProofRequest, signature []byte) (*aggsendertypes.AggchainProof, error) {
	return f.GenerateAggchainProof(context.Background(), req)
}

type fakeGERQuerier struct{}

func (fakeGERQuerier) GetInjectedGERsProofs(ctx context.Context, root *treetypes.Root, from, to uint64) (map[common.Hash]*agglayertypes.ProvenInsertedGERWithBlockNumber, error) {
	return map[common.Hash]*agglayertypes.ProvenInsertedGERWithBlockNumber{}, nil
}

type fakeOptimistic struct{}

func (fakeOptimistic) IsOptimisticModeOn() (bool, error) { return false, nil }

// buildWithFlow builds the storage, the real query objects, the real base flow and either the real
// PP flow or the real aggchain-prover flow around harness fakes, and the AggSender around them
func buildWithFlow(w *asWorld, m *modelAgglayer, c aggsendercfg.Config, cfg asNodeCfg, en *asEpochNotifier, n *asNode) (*aggsender.AggSender, error) {
	logger := log.WithFields("m", "asflow")
	scfg := aggsenderdb.AggSenderSQLStorageConfig{DBPath: c.StoragePath, KeepCertificatesHistory: c.KeepCertificatesHistory}
	var storage *aggsenderdb.AggSenderSQLStorage
	var err error
	if cfg.FaultDB {
		dbh, ctl, derr := faultdb.Open(c.StoragePath)
		if derr != nil {
			return nil, derr
		}
		dbh.SetMaxOpenConns(4)
		n.fault = ctl
		storage, err = aggsenderdb.VerifNewAggSenderSQLStorageWithDB(logger, scfg, dbh)
	} else {
		storage, err = aggsenderdb.NewAggSenderSQLStorage(logger, scfg)
	}
	if err != nil {
		return nil, err
	}
	sg, err := signer.NewSigner(context.Background(), 0, c.AggsenderPrivateKey, "aggsender", logger)
	if err != nil {
		return nil, err
	}
	if err := sg.Initialize(context.Background()); err != nil {
		return nil, err
	}
	rs := &recSigner{Signer: sg}
	n.signer = rs
	l2 := w.l2Store.Facade.(*bridgesync.BridgeSync)
	l1 := w.l1Store.Facade.(*l1infotreesync.L1InfoTreeSync)
	lerQ, err := query.NewLERDataQuerier(common.Address{}, 0, fakeRollupData{})
	if err != nil {
		return nil, err
	}
	l2q := query.NewBridgeDataQuerier(logger, l2, c.DelayBetweenRetries.Duration)
	l1q := query.NewL1InfoTreeDataQuerier(w.l1.Client(), l1)
	base := flows.NewBaseFlow(logger, l2q, storage, l1q, lerQ, flows.NewBaseFlowConfig(c.MaxCertSize, 0, false))
	var flow aggsendertypes.AggsenderFlow
	if cfg.FEP {
		n.prover = &fakeProver{w: w, shorten: true}
		flow = flows.NewAggchainProverFlow(logger, flows.NewAggchainProverFlowConfig(0), base, n.prover, storage, l1q, l2q,
			fakeGERQuerier{}, w.l1.Client(), rs, fakeOptimistic{}, nil)
	} else {
		flow = flows.NewPPFlow(logger, base, storage, l1q, l2q, rs, false, 0)
	}
	return aggsender.VerifNewWithFlow(logger, c, m, storage, flow, en, asOurNet), nil
}
