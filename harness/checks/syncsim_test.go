package checks

import (
	"context"
	"fmt"
	"math/big"
	"strings"
	"sync"
	"sync/atomic"
	"time"

	"github.com/agglayer/aggkit/db/types"
	aggsync "github.com/agglayer/aggkit/sync"
	"github.com/ethereum/go-ethereum/common"
	gethtypes "github.com/ethereum/go-ethereum/core/types"
	"github.com/ethereum/go-ethereum/crypto"
	"verifharness/fakes"
)

// Shared pieces of the syncer-level scenarios (C05, C06, C14-driver, C16): a recording in-memory
// processor, generic watched-log generation and quiescence detection on the chain simulator.

var (
	watchedAddr   = common.HexToAddress("0x00000000000000000000000000000000000a11ce")
	otherAddr     = common.HexToAddress("0x0000000000000000000000000000000000000b0b")
	watchedTopic  = crypto.Keccak256Hash([]byte("Watched(uint256)"))
	ignoredTopic  = crypto.Keccak256Hash([]byte("Ignored(uint256)"))
	watchedTopic2 = crypto.Keccak256Hash([]byte("Watched2(uint256)"))
)

// procCall is one observed call of the recording processor
type procCall struct {
	Op     string // process | reorg
	Num    uint64
	Hash   common.Hash
	Events []string
	Err    string
	// for reorg calls: the last block that remains recorded after the rewind (0 if none)
	LastKept uint64
}

// memProc is a recording processor usable behind the real sync.EVMDriver
type memProc struct {
	mu       sync.Mutex
	blocks   []procCall // successfully processed blocks, in order
	calls    []procCall
	failPlan map[uint64]int // block number -> number of transient failures still to inject
	compat   *aggsync.RuntimeData
	onOK     func(c procCall) // online monitor, called under the lock after a successful ProcessBlock
	onReorg  func(first uint64)
}

func (p *memProc) GetLastProcessedBlock(ctx context.Context) (uint64, error) {
	p.mu.Lock()
	defer p.mu.Unlock()
	if len(p.blocks) == 0 {
		return 0, nil
	}
	return p.blocks[len(p.blocks)-1].Num, nil
}

func (p *memProc) ProcessBlock(ctx context.Context, b aggsync.Block) error {
	p.mu.Lock()
	defer p.mu.Unlock()
	c := procCall{Op: "process", Num: b.Num, Hash: b.Hash}
	for _, e := range b.Events {
		c.Events = append(c.Events, fmt.Sprint(e))
	}
	if n := p.failPlan[b.Num]; n > 0 {
		p.failPlan[b.Num] = n - 1
		c.Err = "injected transient processor error"
		p.calls = append(p.calls, c)
		return fmt.Errorf("injected transient processor error")
	}
	p.calls = append(p.calls, c)
	p.blocks = append(p.blocks, c)
	if p.onOK != nil {
		p.onOK(c)
	}
	return nil
}

func (p *memProc) Reorg(ctx context.Context, first uint64) error {
	p.mu.Lock()
	defer p.mu.Unlock()
	k := len(p.blocks)
	for k > 0 && p.blocks[k-1].Num >= first {
		k--
	}
	p.blocks = p.blocks[:k]
	kept := uint64(0)
	if k > 0 {
		kept = p.blocks[k-1].Num
	}
	p.calls = append(p.calls, procCall{Op: "reorg", Num: first, LastKept: kept})
	if p.onReorg != nil {
		p.onReorg(first)
	}
	return nil
}

func (p *memProc) GetCompatibilityData(ctx context.Context, tx types.Querier) (bool, aggsync.RuntimeData, error) {
	p.mu.Lock()
	defer p.mu.Unlock()
	if p.compat == nil {
		return false, aggsync.RuntimeData{}, nil
	}
	return true, *p.compat, nil
}

func (p *memProc) SetCompatibilityData(ctx context.Context, tx types.Querier, d aggsync.RuntimeData) error {
	p.mu.Lock()
	defer p.mu.Unlock()
	p.compat = &d
	return nil
}

func (p *memProc) snapshot() (blocks []procCall, calls []procCall) {
	p.mu.Lock()
	defer p.mu.Unlock()
	return append([]procCall{}, p.blocks...), append([]procCall{}, p.calls...)
}

// watchedAppender records the identity of each watched log (its data) as the event
func watchedAppender() aggsync.LogAppenderMap {
	f := func(b *aggsync.EVMBlock, l gethtypes.Log) error {
		b.Events = append(b.Events, fmt.Sprintf("%x", l.Data))
		return nil
	}
	return aggsync.LogAppenderMap{watchedTopic: f, watchedTopic2: f}
}

var logSeq, twinLogs atomic.Uint64

// genericLogs builds the logs of one block: nWatched watched logs interleaved with noise
// (unwatched topic at the watched address, watched topic at another address, removed logs)
func genericLogs(g interface{ Intn(int) int }, nWatched int, noise bool) []fakes.LogSpec {
	var out []fakes.LogSpec
	add := func(addr common.Address, topic common.Hash, removed bool) {
		id := logSeq.Add(1)
		data := make([]byte, 8)
		for i := 0; i < 8; i++ {
			data[i] = byte(id >> (56 - 8*i))
		}
		out = append(out, fakes.LogSpec{Address: addr, Topics: []common.Hash{topic}, Data: data, Removed: removed})
	}
	for i := 0; i < nWatched; i++ {
		if noise && g.Intn(3) == 0 {
			switch g.Intn(3) {
			case 0:
				add(watchedAddr, ignoredTopic, false)
			case 1:
				add(otherAddr, watchedTopic, false)
			default:
				add(watchedAddr, watchedTopic, true)
			}
		}
		t := watchedTopic
		if g.Intn(4) == 0 {
			t = watchedTopic2
		}
		add(watchedAddr, t, false)
		if noise && g.Intn(6) == 0 {
			// the removed twin of the log just added (a re-mined transaction): listed after the valid copy
			tw := out[len(out)-1]
			tw.Removed, tw.TwinOfPrev = true, true
			out = append(out, tw)
			twinLogs.Add(1)
		}
	}
	if noise && g.Intn(4) == 0 {
		add(watchedAddr, ignoredTopic, false)
	}
	return out
}

// watchedEventsOf returns the expected events of a canonical block (watched address + topic,
// not removed), in log order
func watchedEventsOf(b *fakes.SimBlock) []string {
	var out []string
	for _, l := range b.Logs {
		if l.Removed || l.Address != watchedAddr {
			continue
		}
		if l.Topics[0] == watchedTopic || l.Topics[0] == watchedTopic2 {
			out = append(out, fmt.Sprintf("%x", l.Data))
		}
	}
	return out
}

// pollWatcher detects quiescence of a downloader: it counts consecutive "latest-like" header
// polls that are not interleaved with any other RPC.
type pollWatcher struct {
	idle  atomic.Int64
	total atomic.Int64
}

func (w *pollWatcher) observe(method string, arg any) {
	w.total.Add(1)
	if method == "HeaderByNumber" {
		if n, ok := arg.(*big.Int); ok && (n == nil || n.Sign() < 0) {
			w.idle.Add(1)
			return
		}
	}
	w.idle.Store(0)
}

// waitIdle waits until `polls` consecutive idle polls were seen (logical quiescence); the wall
// clock bound only guards against a hung run (=> false, inconclusive, never a violation)
func (w *pollWatcher) waitIdle(polls int64, max time.Duration) bool {
	deadline := time.Now().Add(max)
	for time.Now().Before(deadline) {
		if w.idle.Load() >= polls {
			return true
		}
		time.Sleep(200 * time.Microsecond)
	}
	return false
}

func summarizeCalls(calls []procCall, max int) string {
	var s []string
	for _, c := range calls {
		if c.Op == "reorg" {
			s = append(s, fmt.Sprintf("reorg(%d)", c.Num))
		} else if c.Op == "track" {
			e := ""
			if c.Err != "" {
				e = "=ERR"
			}
			s = append(s, fmt.Sprintf("track(%d,%s)%s", c.Num, c.Hash.Hex()[2:8], e))
		} else if c.Err != "" {
			s = append(s, fmt.Sprintf("process(%d)=ERR", c.Num))
		} else {
			s = append(s, fmt.Sprintf("process(%d,%dev,%s)", c.Num, len(c.Events), c.Hash.Hex()[2:8]))
		}
	}
	if len(s) > max {
		s = append([]string{"…"}, s[len(s)-max:]...)
	}
	return strings.Join(s, " ")
}
