package checks

import (
	"fmt"
	"math/rand"
	"os"
	"path/filepath"
	"runtime/debug"
	"strings"
	"sync"
	"sync/atomic"
	"testing"

	"github.com/agglayer/aggkit/log"
	aggsync "github.com/agglayer/aggkit/sync"
	"verifharness/mon"
)

var exitCode atomic.Int32

// aggkitErrorLog: file receiving the node's error-level log lines (only with VERIF_LOG_ERRORS)
var aggkitErrorLog string

// errorLogTail returns the last lines of the node's error log that contain one of the substrings
func errorLogTail(n int, subs ...string) []string {
	if aggkitErrorLog == "" {
		return nil
	}
	b, err := os.ReadFile(aggkitErrorLog)
	if err != nil {
		return nil
	}
	if len(b) > 4<<20 {
		b = b[len(b)-4<<20:]
	}
	var out []string
	for _, l := range strings.Split(string(b), "\n") {
		for _, s := range subs {
			if strings.Contains(l, s) {
				if len(l) > 400 {
					l = l[:400]
				}
				out = append(out, l)
				break
			}
		}
	}
	if len(out) > n {
		out = out[len(out)-n:]
	}
	return out
}

func TestMain(m *testing.M) {
	// the repo logger is extremely chatty (debug lines per step) – only fatals are kept
	log.Init(log.Config{Environment: log.EnvironmentProduction, Level: "fatal", Outputs: []string{"stderr"}})
	if os.Getenv("VERIF_LOG_ERRORS") != "" {
		// diagnosis aid: the node's error-level log lines go to a file in the scratch area
		aggkitErrorLog = filepath.Join(os.Getenv("VERIF_SCRATCH"), "aggkit-errors.log")
		log.Init(log.Config{Environment: log.EnvironmentProduction, Level: "error", Outputs: []string{aggkitErrorLog}})
	}
	// an unexpected fatal from a retry handler must be an observable event, not a dead run
	aggsync.LogFatalf = func(format string, args ...any) {
		panic(fatalSentinel{msg: fmt.Sprintf(format, args...)})
	}
	rc := m.Run()
	if c := int(exitCode.Load()); c != 0 {
		os.Exit(c)
	}
	os.Exit(rc)
}

type fatalSentinel struct{ msg string }

// finish writes evidence + verdict and stores the exit status for TestMain
func finish(t *testing.T, r *mon.Run, minDistinct int, required ...string) {
	t.Helper()
	c := r.Finish(minDistinct, required...)
	if c != 0 {
		// keep the worst
		for {
			old := exitCode.Load()
			if old == 1 || int32(c) == old {
				break
			}
			if exitCode.CompareAndSwap(old, int32(c)) {
				break
			}
		}
	}
}

// rng returns a PRNG that is a pure function of (seed, property, stream)
func rng(r *mon.Run, stream string, i int) *rand.Rand {
	h := uint64(1469598103934665603)
	for _, c := range []byte(fmt.Sprintf("%s|%s|%d|%d", r.Prop, stream, i, r.Seed)) {
		h ^= uint64(c)
		h *= 1099511628211
	}
	return rand.New(rand.NewSource(int64(h)))
}

// scratch returns a fresh directory under the run's scratch area
var scratchCtr atomic.Int64

func scratchDir(tag string) string {
	base := os.Getenv("VERIF_SCRATCH")
	if base == "" {
		base = os.TempDir()
	}
	d := filepath.Join(base, fmt.Sprintf("%s-%d-%d", tag, os.Getpid(), scratchCtr.Add(1)))
	_ = os.MkdirAll(d, 0o755)
	return d
}

// parallel runs fn(i) for i in [0,n) on `workers` goroutines
func parallel(n, workers int, fn func(i int)) {
	if workers < 1 {
		workers = 1
	}
	var wg sync.WaitGroup
	var next atomic.Int64
	for w := 0; w < workers; w++ {
		wg.Add(1)
		go func() {
			defer wg.Done()
			for {
				i := int(next.Add(1)) - 1
				if i >= n {
					return
				}
				fn(i)
			}
		}()
	}
	wg.Wait()
}

// guard runs fn and converts a panic of the code under test into a violation of the property
// whose workload produced it (a crash of the node on a generated input is observable misbehaviour)
func guard(r *mon.Run, caseID string, scenario any, fn func()) {
	defer func() {
		if p := recover(); p != nil {
			if fs, ok := p.(fatalSentinel); ok {
				r.Violation(r.Prop+":fatal:"+firstWords(fs.msg, 4), caseID, "node called log.Fatalf: "+fs.msg, scenario)
				return
			}
			st := string(debug.Stack())
			r.Violation(r.Prop+":panic", caseID, fmt.Sprintf("panic: %v\n%s", p, trimStack(st)), scenario)
		}
	}()
	fn()
}

func firstWords(s string, n int) string {
	out := []byte{}
	w := 0
	for i := 0; i < len(s); i++ {
		c := s[i]
		if c == ' ' {
			w++
			if w >= n {
				break
			}
			out = append(out, '_')
			continue
		}
		if (c >= 'a' && c <= 'z') || (c >= 'A' && c <= 'Z') || (c >= '0' && c <= '9') {
			out = append(out, c)
		}
	}
	return string(out)
}

func trimStack(s string) string {
	if len(s) > 3000 {
		return s[:3000]
	}
	return s
}
