package checks

import (
	"database/sql"
	"fmt"

	"github.com/ethereum/go-ethereum/common"
	"verifharness/ref"
)

// seedConstTree writes into an (empty) append-only tree store the minimal pre-state of a tree
// whose first n leaves all equal `leaf`: the last root row and the 32 nodes on the path of index
// n-1 (what initCache walks), plus the block row. Everything is computed in O(32) by the
// reference, never by the code under test. prefix is the table prefix ("" for the bridge exit
// tree, "l1_info_" for the L1 info tree).
func seedConstTree(dbh *sql.DB, prefix string, leaf common.Hash, n uint64, blockNum uint64) (common.Hash, error) {
	if n == 0 {
		return ref.Zero[ref.Depth], nil
	}
	var full [ref.Depth + 1]common.Hash
	full[0] = leaf
	for h := 1; h <= ref.Depth; h++ {
		full[h] = ref.H2(full[h-1], full[h-1])
	}
	type key struct {
		h int
		c uint64
	}
	memo := map[key]common.Hash{}
	var value func(h int, c uint64) common.Hash
	value = func(h int, c uint64) common.Hash {
		if c == 0 {
			return ref.Zero[h]
		}
		if c == uint64(1)<<uint(h) {
			return full[h]
		}
		if v, ok := memo[key{h, c}]; ok {
			return v
		}
		half := uint64(1) << uint(h-1)
		l, r := c, uint64(0)
		if c > half {
			l, r = half, c-half
		}
		v := ref.H2(value(h-1, l), value(h-1, r))
		memo[key{h, c}] = v
		return v
	}
	root := value(ref.Depth, n)
	tx, err := dbh.Begin()
	if err != nil {
		return root, err
	}
	defer tx.Rollback() //nolint:errcheck
	if _, err := tx.Exec(`INSERT INTO block (num, hash) VALUES ($1, $2)`, blockNum, common.Hash{0xaa}.String()); err != nil {
		return root, err
	}
	if _, err := tx.Exec(fmt.Sprintf(`INSERT INTO %sroot (hash, position, block_num, block_position) VALUES ($1,$2,$3,0)`, prefix),
		root.Hex(), n-1, blockNum); err != nil {
		return root, err
	}
	idx := n - 1
	c := n
	for h := ref.Depth; h >= 1; h-- {
		half := uint64(1) << uint(h-1)
		l, r := c, uint64(0)
		if c > half {
			l, r = half, c-half
		}
		node, left, right := value(h, c), value(h-1, l), value(h-1, r)
		if _, err := tx.Exec(fmt.Sprintf(`INSERT OR IGNORE INTO %srht (hash, left, right) VALUES ($1,$2,$3)`, prefix),
			node.Hex(), left.Hex(), right.Hex()); err != nil {
			return root, err
		}
		if (idx>>uint(h-1))&1 == 1 {
			c = r
		} else {
			c = l
		}
	}
	return root, tx.Commit()
}
