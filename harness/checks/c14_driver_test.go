package checks

import (
	"context"
	"errors"
	"fmt"
	"runtime"
	"sync"
	"time"

	aggsync "github.com/agglayer/aggkit/sync"
	"verifharness/fakes"
	"verifharness/mon"
)

// c14Driver — "stops advancing", through the real downloader + driver + detector: an L1 chain
// with one wrong root announcement halts the real L1 info tree syncer; while the chain keeps
// growing nothing may be recorded; a fork entirely above the stored tip must not clear the halt;
// a fork that replaces processed blocks must clear it and the store must converge.
func c14Driver(r *mon.Run) {
	n := r.N(20, 400)
	parallel(n, max(runtime.NumCPU()/2, 2), func(i int) {
		caseID := fmt.Sprintf("driver/%d", i)
		if !r.Only(caseID) {
			return
		}
		g := rng(r, "c14drv", i)
		trace := []string{}
		scen := map[string]any{"trace": &trace}
		guard(r, caseID, scen, func() {
			ch := fakes.NewChain(1)
			lg := newL1ChainGen(g, 50, true)
			lg.noise = false
			var hmu sync.Mutex
			wrongAt := uint64(8 + g.Intn(20))
			lg.wrongV2[wrongAt] = true
			// make sure the wrong block really carries an announcement: force events there
			growTo := int(wrongAt) + 5 + g.Intn(10)
			lag := uint64(60) // nothing of this short chain is finalized: every block is reorg-able
			_ = lag
			ch.Hook = func(c *fakes.Chain, m string, a any) error {
				hmu.Lock()
				defer hmu.Unlock()
				if int(c.Latest()) < growTo && g.Intn(3) == 0 {
					lg.adopt(c.MineFn(1+g.Intn(2), lg.gen))
				}
				return nil
			}
			lg.adopt(ch.MineFn(3, lg.gen))
			node, err := startL1Node(ch, scratchDir("c14d"), uint64([]int{1, 5, 50}[g.Intn(3)]), true, nil)
			if err != nil {
				r.Inconclusive("cannot start the node: " + err.Error())
				return
			}
			defer node.stop()
			lastStored := func() uint64 {
				var v uint64
				_ = node.syncer.VerifDB().QueryRow("SELECT COALESCE(MAX(num),0) FROM block").Scan(&v)
				return v
			}
			// wait until the node halts (bounded; if the wrong block carried no announcement the
			// generator did not produce the halting cause: trivial case)
			halted := false
			deadline := time.Now().Add(30 * time.Second)
			for time.Now().Before(deadline) {
				if node.syncer.VerifIsHalted() {
					halted = true
					break
				}
				hmu.Lock()
				done := int(ch.Latest()) >= growTo
				hmu.Unlock()
				if done && lastStored() >= wrongAt {
					break
				}
				time.Sleep(time.Millisecond)
			}
			if !halted {
				// no announcement landed in the designated block (PRNG): nothing to judge
				r.Eval("")
				return
			}
			trace = append(trace, fmt.Sprintf("halted with last stored block %d (wrong announcement in block %d, head %d)", lastStored(), wrongAt, ch.Latest()))
			fp0, _ := dbFingerprint(node.syncer.VerifDB(), "key_value")
			stored0 := lastStored()
			if stored0 >= wrongAt {
				r.Violation("C14:driver:block-with-inconsistency-recorded", caseID, fmt.Sprintf("block %d carries the wrong announcement but blocks up to %d are recorded", wrongAt, stored0), scen)
				return
			}
			if _, err := node.syncer.GetLastProcessedBlock(context.Background()); !errors.Is(err, aggsync.ErrInconsistentState) {
				r.Violation("C14:driver:query-answers-while-halted", caseID, fmt.Sprintf("GetLastProcessedBlock while halted: %v", err), scen)
				return
			}
			// the chain keeps growing, the node keeps running: nothing may be recorded
			hmu.Lock()
			growTo += 10 + g.Intn(10)
			hmu.Unlock()
			c0 := ch.Calls()
			for w := 0; w < 4000 && (ch.Calls() < c0+150 || int(ch.Latest()) < growTo); w++ {
				if int(ch.Latest()) < growTo {
					hmu.Lock()
					lg.adopt(ch.MineFn(1, lg.gen))
					hmu.Unlock()
				}
				time.Sleep(500 * time.Microsecond)
			}
			fp1, _ := dbFingerprint(node.syncer.VerifDB(), "key_value")
			if d := fpDiff(fp0, fp1); len(d) > 0 || !node.syncer.VerifIsHalted() {
				r.Violation("C14:driver:advances-while-halted", caseID, fmt.Sprintf("while halted (chain grew to %d, %d more RPC calls) the store changed: %v halted=%v", ch.Latest(), ch.Calls()-c0, d, node.syncer.VerifIsHalted()), scen)
				return
			}
			r.Eval("driver/halted/does-not-advance")
			// a fork entirely above the stored tip (it may replace the wrong block): removes nothing
			hmu.Lock()
			at := stored0 + 1 + uint64(g.Intn(int(ch.Latest()-stored0)))
			nb := ch.Fork(at, int(ch.Latest()-at)+2, lg.gen)
			lg.adopt(nb)
			hmu.Unlock()
			trace = append(trace, fmt.Sprintf("fork at %d (above the stored tip %d)", at, stored0))
			c0 = ch.Calls()
			for w := 0; w < 4000 && ch.Calls() < c0+150; w++ {
				time.Sleep(500 * time.Microsecond)
			}
			fp2, _ := dbFingerprint(node.syncer.VerifDB(), "key_value")
			if d := fpDiff(fp0, fp2); len(d) > 0 || !node.syncer.VerifIsHalted() {
				r.Violation("C14:driver:cleared-by-reorg-that-removes-nothing", caseID,
					fmt.Sprintf("a fork at %d, above the last stored block %d, cleared the halted state or changed the store: %v halted=%v", at, stored0, d, node.syncer.VerifIsHalted()), scen)
				return
			}
			r.Eval("driver/halted/fork-above-tip-does-not-clear")
			// a fork that replaces processed blocks: detector -> driver -> Reorg removes rows ->
			// cleared, and the store converges to the final chain
			if stored0 < 2 {
				return
			}
			hmu.Lock()
			at = 1 + uint64(g.Intn(int(stored0)))
			nb = ch.Fork(at, int(ch.Latest()-at)+3, lg.gen)
			lg.adopt(nb)
			hmu.Unlock()
			trace = append(trace, fmt.Sprintf("fork at %d (replaces processed blocks, stored tip %d)", at, stored0))
			if diff := waitConverged(node.syncer, lg, ch, 40*time.Second); diff != "" {
				ev := ch.Events()
				if len(ev) > 80 {
					ev = ev[len(ev)-80:]
				}
				scen["chain_events_tail"] = ev
				r.Violation("C14:driver:does-not-recover-after-clearing-reorg", caseID, "after a fork that replaces processed blocks the node does not converge: "+diff, scen)
				return
			}
			r.Eval("driver/cleared-by-removing-reorg/converged")
			r.Sample(map[string]any{"trace": trace})
		})
	})
}
