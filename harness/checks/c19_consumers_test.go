package checks

import (
	"context"
	"math/big"
	"time"

	agglayergrpc "github.com/agglayer/aggkit/agglayer/grpc"
	agglayertypes "github.com/agglayer/aggkit/agglayer/types"
	"github.com/agglayer/aggkit/aggsender/aggchainproofclient"
	"github.com/agglayer/aggkit/aggsender/optimistic/optimistichash"
	aggsendertypes "github.com/agglayer/aggkit/aggsender/types"
	"github.com/agglayer/aggkit/bridgesync"
	cfgtypes "github.com/agglayer/aggkit/config/types"
	aggkitgrpc "github.com/agglayer/aggkit/grpc"
	"github.com/agglayer/aggkit/l1infotreesync"
	"github.com/ethereum/go-ethereum/common"
	"github.com/ethereum/go-ethereum/crypto"
	"verifharness/fakes"
	"verifharness/mon"
)

func grpcCfg() *aggkitgrpc.ClientConfig {
	return &aggkitgrpc.ClientConfig{RequestTimeout: cfgtypes.NewDuration(10 * time.Second)}
}

func dummyL1Leaf() *agglayertypes.L1InfoTreeLeaf {
	return &agglayertypes.L1InfoTreeLeaf{Inner: &agglayertypes.L1InfoTreeLeafInner{}}
}

// c19Consumers returns, per consumer, the 256-bit global index value that consumer carries for
// the claim (nil when the consumer could not be observed).
func c19Consumers(r *mon.Run, caseID string, sc any, claims []bridgesync.Claim,
	ibes []*agglayertypes.ImportedBridgeExit) map[string][]*big.Int {
	out := map[string][]*big.Int{}

	// --- wire message built by the real gRPC client -------------------------------------------
	sub := &fakes.SubmissionCapture{}
	cl := agglayergrpc.VerifNewAgglayerGRPCClient(grpcCfg(), nil, nil, sub)
	for _, ibe := range ibes {
		if ibe.GlobalIndex.MainnetFlag {
			ibe.ClaimData = &agglayertypes.ClaimFromMainnnet{
				ProofLeafMER: &agglayertypes.MerkleProof{}, ProofGERToL1Root: &agglayertypes.MerkleProof{}, L1Leaf: dummyL1Leaf()}
		} else {
			ibe.ClaimData = &agglayertypes.ClaimFromRollup{
				ProofLeafLER: &agglayertypes.MerkleProof{}, ProofLERToRER: &agglayertypes.MerkleProof{},
				ProofGERToL1Root: &agglayertypes.MerkleProof{}, L1Leaf: dummyL1Leaf()}
		}
	}
	cert := &agglayertypes.Certificate{
		NetworkID:           1,
		ImportedBridgeExits: ibes,
		AggchainData:        &agglayertypes.AggchainDataSignature{Signature: make([]byte, 65)},
	}
	if _, err := cl.SendCertificate(context.Background(), cert); err != nil {
		r.Violation("C19:consumer:protobuf-error", caseID, "SendCertificate conversion failed: "+err.Error(), sc)
	} else if req := sub.Last(); req != nil && len(req.Certificate.ImportedBridgeExits) == len(ibes) {
		for _, x := range req.Certificate.ImportedBridgeExits {
			out["protobuf"] = append(out["protobuf"], new(big.Int).SetBytes(x.GlobalIndex.Value))
		}
	} else {
		r.Violation("C19:consumer:protobuf-count", caseID, "protobuf request does not carry one imported exit per claim", sc)
	}

	// --- prover request built by the real aggchain-proof client -------------------------------
	pc := &fakes.ProverCapture{}
	pcl := aggchainproofclient.VerifNewAggchainProofClient(grpcCfg(), pc)
	preq := aggsendertypes.NewAggchainProofRequest(1, 2, common.Hash{}, l1infotreesync.L1InfoTreeLeaf{},
		agglayertypes.MerkleProof{}, nil,
		func() []*agglayertypes.ImportedBridgeExitWithBlockNumber {
			var l []*agglayertypes.ImportedBridgeExitWithBlockNumber
			for i, ibe := range ibes {
				l = append(l, &agglayertypes.ImportedBridgeExitWithBlockNumber{BlockNumber: uint64(5 + i), ImportedBridgeExit: ibe})
			}
			return l
		}())
	if _, err := pcl.GenerateAggchainProof(context.Background(), preq); err != nil {
		r.Violation("C19:consumer:prover-request-error", caseID, "GenerateAggchainProof failed: "+err.Error(), sc)
	} else if req := pc.Last(); req != nil && len(req.ImportedBridgeExits) == len(ibes) {
		for _, x := range req.ImportedBridgeExits {
			out["prover-request"] = append(out["prover-request"], new(big.Int).SetBytes(x.GlobalIndex.Value))
		}
	} else {
		r.Violation("C19:consumer:prover-request-count", caseID, "prover request does not carry one imported exit per claim", sc)
	}

	// --- optimistic commitment input -----------------------------------------------------------
	// hash = keccak( for each claim: LE32(globalIndex) || bridgeExitHash ); recomputed from the
	// claims' own global indexes.
	got := optimistichash.CalculateCommitImportedBrdigeExitsHashFromClaims(claims)
	var combined []byte
	for _, claim := range claims {
		leafType := agglayertypes.LeafTypeAsset
		if claim.IsMessage {
			leafType = agglayertypes.LeafTypeMessage
		}
		be := agglayertypes.BridgeExit{LeafType: leafType,
			TokenInfo:          &agglayertypes.TokenInfo{OriginNetwork: claim.OriginNetwork, OriginTokenAddress: claim.OriginAddress},
			DestinationNetwork: claim.DestinationNetwork, DestinationAddress: claim.DestinationAddress,
			Amount: claim.Amount, Metadata: claim.Metadata}
		var be32 [32]byte
		claim.GlobalIndex.FillBytes(be32[:])
		le := make([]byte, 32)
		for i := range le {
			le[i] = be32[31-i]
		}
		combined = append(combined, le...)
		combined = append(combined, be.Hash().Bytes()...)
	}
	ok := got == crypto.Keccak256Hash(combined)
	for _, claim := range claims {
		if ok {
			out["optimistic"] = append(out["optimistic"], new(big.Int).Set(claim.GlobalIndex))
		} else {
			out["optimistic"] = append(out["optimistic"], big.NewInt(-1))
		}
	}
	return out
}
