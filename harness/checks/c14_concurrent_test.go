package checks

import (
	"errors"
	"fmt"
	"runtime"
	"sync"
	"sync/atomic"

	aggsync "github.com/agglayer/aggkit/sync"
	"verifharness/mon"
)

// c14Concurrent — concurrent callers. Reader goroutines keep calling every exported query entry
// point (reflection, pooled valid arguments) while the writer halts the store, runs reorgs that
// remove nothing, and finally a reorg that removes processed blocks. Every call is stamped at the
// client boundary with one monotonic counter (call stamp before invoking, return stamp after the
// reply). Judged, by stamps only (no wall clock):
//   - a call that started after the halting ProcessBlock returned and ended before the removing
//     Reorg was invoked must return ErrInconsistentState and no data;
//   - a call that ended before the halting ProcessBlock was invoked must not return the error;
//   - a call that started after the removing Reorg returned must not return the error.
//
// Calls overlapping one of the two transitions may legitimately see either side and are counted,
// not judged.
func c14Concurrent(r *mon.Run) {
	n := r.N(12, 200)
	kinds := []string{"bridge", "l1info"}
	type rec struct {
		k      int
		t0, t1 int64
		a      answer
	}
	parallel(n*len(kinds), max(runtime.NumCPU()/4, 2), func(j int) {
		kind, i := kinds[j%len(kinds)], j/len(kinds)
		caseID := fmt.Sprintf("concurrent/%s/%d", kind, i)
		if !r.Only(caseID) {
			return
		}
		g := rng(r, "c14conc-"+kind, i)
		sc := map[string]any{"kind": kind}
		guard(r, caseID, sc, func() {
			h := newHistory(kind, g)
			A, err := newStore(kind, "c14C")
			if err != nil {
				r.Inconclusive("cannot open store: " + err.Error())
				return
			}
			defer func() { A.Close() }()
			first := h.extend(4 + g.Intn(10))
			for kind == "l1info" && len(h.l1.Ref.Leaves) == 0 {
				first = append(first, h.extend(2)...)
			}
			for _, b := range first {
				if err := A.Process(b); err != nil {
					r.Violation("C14:"+kind+":process-error", caseID, fmt.Sprintf("ProcessBlock(%d): %v", b.Num, err), sc)
					return
				}
			}
			pools := poolsFor(kind, g, h.all, A, nil)
			calls, _ := buildCalls(A.Facade, facadeExclude, pools, g, 12)
			if len(calls) == 0 {
				r.Inconclusive("no calls generated")
				return
			}
			var clock atomic.Int64
			var stop atomic.Bool
			readers := 3 + g.Intn(3)
			recs := make([][]rec, readers)
			var wg sync.WaitGroup
			for p := 0; p < readers; p++ {
				wg.Add(1)
				off := g.Intn(len(calls))
				go func(p, off int) {
					defer wg.Done()
					for it := 0; !stop.Load() && it < 4000; it++ {
						k := (off + it) % len(calls)
						t0 := clock.Add(1)
						a := ask(A.Facade, calls[k])
						t1 := clock.Add(1)
						recs[p] = append(recs[p], rec{k, t0, t1, a})
					}
				}(p, off)
			}
			// let every reader complete a few calls in each phase: wait on the logical clock
			waitCalls := func(k int64) {
				target := clock.Load() + 2*k*int64(readers)
				for clock.Load() < target && !stop.Load() {
					runtime.Gosched()
				}
			}
			waitCalls(3)
			hb, cause := c14HaltingBlock(h, i)
			haltStart := clock.Add(1)
			perr := A.Process(hb)
			haltEnd := clock.Add(1)
			if !errors.Is(perr, aggsync.ErrInconsistentState) {
				stop.Store(true)
				wg.Wait()
				r.Violation("C14:"+kind+":inconsistency-not-reported", caseID, fmt.Sprintf("block with %s: ProcessBlock returned %v, want ErrInconsistentState", cause, perr), sc)
				return
			}
			waitCalls(4)
			tip := h.lastNum()
			for _, b := range []uint64{tip + 1, hb.Num + 1, tip + 2 + uint64(g.Intn(4))} {
				_ = A.Reorg(b)
				waitCalls(2)
			}
			rb := h.blocks[g.Intn(len(h.blocks))].Num
			clearStart := clock.Add(1)
			rerr := A.Reorg(rb)
			clearEnd := clock.Add(1)
			waitCalls(4)
			stop.Store(true)
			wg.Wait()
			if rerr != nil {
				r.Violation("C14:"+kind+":reorg-error", caseID, fmt.Sprintf("Reorg(%d): %v", rb, rerr), sc)
				return
			}
			var inHalt, before, after, overlap int
			for p := range recs {
				for _, x := range recs[p] {
					c := calls[x.k]
					switch {
					case x.t1 < haltStart:
						before++
						if x.a.Incons {
							r.Violation(fmt.Sprintf("C14:%s:%s:refuses-before-halt:concurrent", kind, c.Method), caseID,
								fmt.Sprintf("%s returned the inconsistency error before the halting block was offered (reader %d, stamps %d-%d, halt at %d)", c.Desc, p, x.t0, x.t1, haltStart), sc)
							return
						}
					case x.t0 > haltEnd && x.t1 < clearStart:
						inHalt++
						if !x.a.Incons {
							r.Violation(fmt.Sprintf("C14:%s:%s:answers-while-halted:concurrent", kind, c.Method), caseID,
								fmt.Sprintf("%s returned (%s, err=%q) to concurrent reader %d at stamps %d-%d; halted since %d, clearing reorg invoked at %d", c.Desc, clip(x.a.Val, 120), x.a.Err, p, x.t0, x.t1, haltEnd, clearStart), sc)
							return
						}
						if !x.a.ZeroVal {
							r.Violation(fmt.Sprintf("C14:%s:%s:data-with-error:concurrent", kind, c.Method), caseID,
								fmt.Sprintf("%s returned data %s together with the inconsistency error", c.Desc, clip(x.a.Val, 120)), sc)
							return
						}
					case x.t0 > clearEnd:
						after++
						if x.a.Incons {
							r.Violation(fmt.Sprintf("C14:%s:%s:still-refuses-after-removing-reorg:concurrent", kind, c.Method), caseID,
								fmt.Sprintf("%s still returned the inconsistency error to reader %d at stamps %d-%d although Reorg(%d) had returned at %d", c.Desc, p, x.t0, x.t1, rb, clearEnd), sc)
							return
						}
					default:
						overlap++
					}
				}
			}
			r.Add("concurrent_calls_judged_while_halted", inHalt)
			r.Add("concurrent_calls_judged_before_halt", before)
			r.Add("concurrent_calls_judged_after_clearing_reorg", after)
			r.Add("concurrent_calls_overlapping_a_transition_not_judged", overlap)
			if inHalt >= readers && before > 0 && after > 0 {
				r.Eval(fmt.Sprintf("concurrent/%s/%s/readers=%d", kind, cause, readers))
			} else {
				r.Cover("concurrent/" + kind + "/too-few-calls-in-a-phase")
			}
		})
	})
}
