package checks

import (
	"context"
	"errors"
	"fmt"
	"math/big"
	"math/rand"
	"os"
	"path/filepath"
	"sort"
	"strings"
	"runtime"
	"sync"
	"testing"
	"time"

	"github.com/0xPolygon/cdk-contracts-tooling/contracts/pp/l2-sovereign-chain/globalexitrootmanagerl2sovereignchain"
	"github.com/agglayer/aggkit/db"
	"github.com/agglayer/aggkit/l1infotreesync"
	"github.com/agglayer/aggkit/lastgersync"
	"github.com/agglayer/aggkit/reorgdetector"
	aggsync "github.com/agglayer/aggkit/sync"
	treetypes "github.com/agglayer/aggkit/tree/types"
	aggkittypes "github.com/agglayer/aggkit/types"
	"github.com/ethereum/go-ethereum"
	"github.com/ethereum/go-ethereum/common"
	"verifharness/fakes"
	"verifharness/mon"
	"verifharness/world"
)

// C16 — the injected-GER index reflects what was really injected on L2.

var (
	l2GERAddr  = common.HexToAddress("0x0000000000000000000000000000000000a4670a")
	l2GERABI, _ = globalexitrootmanagerl2sovereignchain.Globalexitrootmanagerl2sovereignchainMetaData.GetAbi()
)

// fakeL1Info is the L1 info tree querier of lastgersync: a reference list of leaves of which the
// first `known` are visible (the local L1 info tree syncer may lag behind the L2 injection)
type fakeL1Info struct {
	mu     sync.Mutex
	gers   []common.Hash
	known  int
	byGER  map[common.Hash]uint32
}

func (f *fakeL1Info) GetLastL1InfoTreeRoot(ctx context.Context) (treetypes.Root, error) {
	f.mu.Lock()
	defer f.mu.Unlock()
	if f.known == 0 {
		return treetypes.Root{}, db.ErrNotFound
	}
	return treetypes.Root{Index: uint32(f.known - 1)}, nil
}
func (f *fakeL1Info) GetInfoByIndex(ctx context.Context, index uint32) (*l1infotreesync.L1InfoTreeLeaf, error) {
	f.mu.Lock()
	defer f.mu.Unlock()
	if int(index) >= f.known {
		return nil, db.ErrNotFound
	}
	return &l1infotreesync.L1InfoTreeLeaf{L1InfoTreeIndex: index, GlobalExitRoot: f.gers[index]}, nil
}
func (f *fakeL1Info) GetInfoByGlobalExitRoot(ger common.Hash) (*l1infotreesync.L1InfoTreeLeaf, error) {
	f.mu.Lock()
	defer f.mu.Unlock()
	idx, ok := f.byGER[ger]
	if !ok || int(idx) >= f.known {
		return nil, db.ErrNotFound
	}
	return &l1infotreesync.L1InfoTreeLeaf{L1InfoTreeIndex: idx, GlobalExitRoot: ger}, nil
}

// liveGERs computes, from the canonical L2 chain, the injected-and-not-removed roots
func liveGERs(canon []*fakes.SimBlock, upTo uint64) map[common.Hash]bool {
	live := map[common.Hash]bool{}
	ins, rem := l2GERABI.Events["UpdateHashChainValue"].ID, l2GERABI.Events["UpdateRemovalHashChainValue"].ID
	for _, b := range canon {
		if b.Num() > upTo {
			break
		}
		for _, l := range b.Logs {
			if l.Address != l2GERAddr || l.Removed || len(l.Topics) < 2 {
				continue
			}
			switch l.Topics[0] {
			case ins:
				live[l.Topics[1]] = true
			case rem:
				delete(live, l.Topics[1])
			}
		}
	}
	return live
}

type c16Cfg struct {
	Mode     string `json:"mode"`
	Target   int    `json:"target_blocks"`
	MaxJump  int    `json:"max_tip_jump_between_polls"`
	EventPct int    `json:"ger_event_block_pct"`
	Removals bool   `json:"removals"`
	Restarts int    `json:"restarts"`
	Forks    int    `json:"forks"`
	L1Lag    bool   `json:"l1_info_syncer_lags"`
	ErrPct   int    `json:"rpc_error_pct"`
	// FinalFork: when the chain stops growing, one more fork drops the block of the last
	// injection and the same root is injected again on the new fork, nothing after it
	FinalFork bool `json:"final_fork_reinjects_last_root"`
	// ForkEmptyTail: forks replace blocks WITHOUT events, which the node has already been served,
	// by blocks with events (nothing the node tracks changes its hash unless it tracks range ends)
	ForkEmptyTail bool `json:"forks_replace_served_empty_blocks_by_blocks_with_events"`
	// GrowDuringCalls: the chain also grows while the node is in the middle of its view calls
	// (FEP mode reads contract state call by call), and forks drop those fresh blocks
	GrowDuringCalls bool `json:"chain_grows_between_view_calls"`
}

type gerNode struct {
	cancel context.CancelFunc
	client *fakes.ChainClient
	rd     *reorgdetector.ReorgDetector
	s      *lastgersync.LastGERSync
	done   chan struct{}
}

func startGERNode(ch *fakes.Chain, dir string, l1 *fakeL1Info, mode lastgersync.SyncMode) (*gerNode, error) {
	ctx, cancel := context.WithCancel(context.Background())
	cl := ch.Client()
	rd, err := newDetector(cl, dir)
	if err != nil {
		cancel()
		return nil, err
	}
	if err := rd.Start(ctx); err != nil {
		cancel()
		return nil, err
	}
	s, err := lastgersync.New(ctx, filepath.Join(dir, "ger.sqlite"), rd, cl, l2GERAddr, l1,
		200*time.Microsecond, -1, aggkittypes.LatestBlock, 300*time.Microsecond, 100, false, mode)
	if err != nil {
		cancel()
		return nil, err
	}
	n := &gerNode{cancel: cancel, client: cl, rd: rd, s: s, done: make(chan struct{})}
	go func() { _ = s.Start(ctx); close(n.done) }()
	return n, nil
}

func (n *gerNode) stop() {
	n.cancel()
	n.client.Kill()
	select {
	case <-n.done:
	case <-time.After(20 * time.Second):
	}
	_ = n.s.VerifDB().Close()
	_ = n.rd.VerifDB().Close()
}

// c16Judge evaluates the property's query clause for every X
func c16Judge(s *lastgersync.LastGERSync, l1 *fakeL1Info, live map[common.Hash]bool, head uint64) string {
	ctx := context.Background()
	maxIdx := uint32(len(l1.gers))
	for x := uint32(0); x <= maxIdx; x++ {
		res, err := s.GetFirstGERAfterL1InfoTreeIndex(ctx, x)
		exists := false
		for g := range live {
			if l1.byGER[g] >= x {
				exists = true
			}
		}
		if err != nil {
			if !errors.Is(err, db.ErrNotFound) {
				return fmt.Sprintf("GetFirstGERAfterL1InfoTreeIndex(%d): %v", x, err)
			}
			if exists {
				return fmt.Sprintf("GetFirstGERAfterL1InfoTreeIndex(%d) = not found, but an injected, not removed root with index >= %d exists on L2", x, x)
			}
			continue
		}
		if !live[res.GlobalExitRoot] {
			return fmt.Sprintf("GetFirstGERAfterL1InfoTreeIndex(%d) returns %s (index %d), which is not an injected-and-not-removed root of the canonical L2 chain", x, res.GlobalExitRoot.Hex()[:10], res.L1InfoTreeIndex)
		}
		if res.L1InfoTreeIndex < x || l1.byGER[res.GlobalExitRoot] != res.L1InfoTreeIndex {
			return fmt.Sprintf("GetFirstGERAfterL1InfoTreeIndex(%d) returns index %d for a root whose L1 info index is %d", x, res.L1InfoTreeIndex, l1.byGER[res.GlobalExitRoot])
		}
	}
	lp, err := s.GetLastProcessedBlock(ctx)
	if err != nil || lp > head {
		return fmt.Sprintf("GetLastProcessedBlock = %d, %v (head %d)", lp, err, head)
	}
	return ""
}

func c16Run(r *mon.Run, caseID string, g *rand.Rand, cfg c16Cfg) {
	trace := []string{}
	scen := map[string]any{"config": cfg, "trace": &trace}
	guard(r, caseID, scen, func() {
		ch := fakes.NewChain(2)
		l1 := &fakeL1Info{byGER: map[common.Hash]uint32{}}
		nLeaves := 10 + g.Intn(40)
		for i := 0; i < nLeaves; i++ {
			h := world.RandHash(g)
			l1.gers = append(l1.gers, h)
			l1.byGER[h] = uint32(i)
		}
		l1.known = nLeaves
		if cfg.L1Lag {
			l1.known = g.Intn(3)
		}
		var hmu sync.Mutex
		nextIdx := 0
		var liveList, removedList []common.Hash
		growing := true
		forksLeft := cfg.Forks
		// roots whose removal was carried by a block that a fork dropped later (the node may have
		// executed the DELETE; nothing restores the row: known finding shared with C04)
		droppedRemovals := map[common.Hash]bool{}
		noteDropped := func(c *fakes.Chain, at uint64) {
			rem := l2GERABI.Events["UpdateRemovalHashChainValue"].ID
			for _, b := range c.Canonical() {
				if b.Num() < at {
					continue
				}
				for _, l := range b.Logs {
					if l.Address == l2GERAddr && len(l.Topics) > 1 && l.Topics[0] == rem {
						droppedRemovals[l.Topics[1]] = true
					}
				}
			}
		}
		// one GER event at most per L2 block
		pctOverride := -1
		gen := func(num uint64, ph common.Hash, ts uint64) []fakes.LogSpec {
			pct := cfg.EventPct
			if pctOverride >= 0 {
				pct = pctOverride
			}
			if g.Intn(100) >= pct {
				return nil
			}
			switch {
			case cfg.Removals && len(liveList) > 0 && g.Intn(5) == 0:
				k := g.Intn(len(liveList))
				ger := liveList[k]
				liveList = append(liveList[:k], liveList[k+1:]...)
				removedList = append(removedList, ger)
				return []fakes.LogSpec{fakes.PackLog(l2GERABI, l2GERAddr, "UpdateRemovalHashChainValue", ger, world.RandHash(g))}
			case cfg.Removals && len(removedList) > 0 && g.Intn(8) == 0:
				k := g.Intn(len(removedList))
				ger := removedList[k]
				removedList = append(removedList[:k], removedList[k+1:]...)
				liveList = append(liveList, ger)
				return []fakes.LogSpec{fakes.PackLog(l2GERABI, l2GERAddr, "UpdateHashChainValue", ger, world.RandHash(g))}
			case nextIdx < nLeaves:
				// the oracle injects roots in increasing index order, possibly skipping some
				nextIdx += g.Intn(2)
				if nextIdx >= nLeaves {
					return nil
				}
				ger := l1.gers[nextIdx]
				nextIdx++
				liveList = append(liveList, ger)
				return []fakes.LogSpec{fakes.PackLog(l2GERABI, l2GERAddr, "UpdateHashChainValue", ger, world.RandHash(g)),
					{Address: otherAddr, Topics: []common.Hash{l2GERABI.Events["UpdateHashChainValue"].ID, world.RandHash(g), world.RandHash(g)}}}
			}
			return nil
		}
		// after a fork the generator's notion of live roots is rebuilt from the canonical chain
		resync := func(c *fakes.Chain) {
			live := liveGERs(c.Canonical(), 1<<62)
			liveList = liveList[:0]
			for ger := range live {
				liveList = append(liveList, ger)
			}
			sortHashes(liveList)
			removedList = removedList[:0]
		}
		selector := l2GERABI.Methods["globalExitRootMap"].ID
		ch.CallHandler = func(c *fakes.Chain, msg ethereum.CallMsg, bn *big.Int) ([]byte, error) {
			if msg.To == nil || *msg.To != l2GERAddr || len(msg.Data) != 36 || string(msg.Data[:4]) != string(selector) {
				return nil, fmt.Errorf("unsupported view call")
			}
			var ger common.Hash
			copy(ger[:], msg.Data[4:])
			upTo := uint64(1 << 62)
			if bn != nil && bn.Sign() >= 0 {
				// eth_call at an explicit block: the state as of that block of the canonical chain
				if bn.Uint64() > c.Latest() {
					return nil, ethereum.NotFound
				}
				upTo = bn.Uint64()
			}
			live := liveGERs(c.Canonical(), upTo)
			out := make([]byte, 32)
			if live[ger] {
				out[31] = 1
			}
			if os.Getenv("VERIF_DEBUG_DIR") != "" {
				c.Note("call globalExitRootMap(%s idx %d) at head %d -> %v", ger.Hex()[:10], l1.byGER[ger], c.Latest(), live[ger])
			}
			return out, nil
		}
		ch.Hook = func(c *fakes.Chain, m string, a any) error {
			hmu.Lock()
			defer hmu.Unlock()
			if !growing {
				return nil
			}
			isPoll := false
			if n, ok := a.(*big.Int); ok && m == "HeaderByNumber" && (n == nil || n.Sign() < 0) {
				isPoll = true
			}
			if cfg.GrowDuringCalls && m == "CallContract" && g.Intn(8) == 0 {
				pctOverride = 100
				c.MineFn(1, gen)
				pctOverride = -1
			}
			if isPoll && g.Intn(2) == 0 {
				c.MineFn(1+g.Intn(cfg.MaxJump), gen)
				if h := c.Latest(); h > 8 {
					c.SetFinalized(h - 8)
				}
			}
			if cfg.L1Lag && g.Intn(10) == 0 {
				l1.mu.Lock()
				if l1.known < nLeaves {
					l1.known = min(nLeaves, l1.known+1+g.Intn(6))
				}
				l1.mu.Unlock()
			}
			emptyTail := 0
			if cfg.ForkEmptyTail && forksLeft > 0 && c.MaxServed.Load() >= c.Latest() {
				canon := c.Canonical()
				for k := len(canon) - 1; k > int(c.Finalized()) && emptyTail < 5; k-- {
					has := false
					for _, l := range canon[k].Logs {
						if l.Address == l2GERAddr {
							has = true
						}
					}
					if has {
						break
					}
					emptyTail++
				}
			}
			forkNow := (!cfg.ForkEmptyTail && g.Intn(30) == 0) || (emptyTail > 0 && g.Intn(6) == 0)
			if cfg.GrowDuringCalls && m == "CallContract" {
				forkNow = g.Intn(12) == 0
			}
			if forksLeft > 0 && forkNow {
				head, fin := c.Latest(), c.Finalized()
				if head > fin+1 {
					depth := 1 + g.Intn(min(5, int(head-fin)))
					if cfg.ForkEmptyTail {
						depth = 1 + g.Intn(emptyTail)
						pctOverride = 100
					}
					at := head - uint64(depth) + 1
					// the generator must not remember roots inserted only on the dropped blocks
					old := liveList
					liveList = nil
					for ger := range liveGERs(c.Canonical(), at-1) {
						liveList = append(liveList, ger)
					}
					sortHashes(liveList)
					removedList = removedList[:0]
					// the oracle injects again the roots whose injection was dropped by the reorg
					oldNext := nextIdx
					nextIdx = 0
					for _, ger := range liveList {
						if int(l1.byGER[ger])+1 > nextIdx {
							nextIdx = int(l1.byGER[ger]) + 1
						}
					}
					noteDropped(c, at)
					nb := c.Fork(at, depth+g.Intn(3), gen)
					pctOverride = -1
					if nb == nil {
						nextIdx = oldNext
						liveList = old
					} else {
						forksLeft--
						trace = append(trace, fmt.Sprintf("fork at %d depth %d", at, depth))
						resync(c)
					}
				}
			}
			if g.Intn(100) < cfg.ErrPct {
				return errors.New("injected transient RPC error")
			}
			if int(c.Latest()) >= cfg.Target {
				growing = false
			}
			return nil
		}
		ch.MineFn(2, gen)
		dir := scratchDir("c16")
		mode := lastgersync.PP
		if cfg.Mode == "FEP" {
			mode = lastgersync.FEP
		}
		node, err := startGERNode(ch, dir, l1, mode)
		if err != nil {
			r.Inconclusive("cannot start lastgersync: " + err.Error())
			return
		}
		restartsLeft := cfg.Restarts
		hmu.Lock()
		nextRestart := ch.Calls() + int64(10+g.Intn(150))
		hmu.Unlock()
		deadline := time.Now().Add(90 * time.Second)
		for time.Now().Before(deadline) {
			hmu.Lock()
			gr := growing
			hmu.Unlock()
			if restartsLeft > 0 && (ch.Calls() >= nextRestart || !gr) {
				node.stop()
				hmu.Lock()
				trace = append(trace, fmt.Sprintf("restart at RPC call %d (head %d)", ch.Calls(), ch.Latest()))
				restartsLeft--
				nextRestart = ch.Calls() + int64(10+g.Intn(150))
				hmu.Unlock()
				if node, err = startGERNode(ch, dir, l1, mode); err != nil {
					r.Violation("C16:cannot-restart", caseID, err.Error(), scen)
					return
				}
				continue
			}
			if !gr && restartsLeft == 0 {
				break
			}
			time.Sleep(300 * time.Microsecond)
		}
		hmu.Lock()
		growing = false
		if cfg.FinalFork && nextIdx < nLeaves {
			// make sure there is a fresh, non-finalized insertion that the node has indexed: one more
			// block injects the next root, empty blocks follow until the node serves it
			l1.mu.Lock()
			l1.known = nLeaves
			l1.mu.Unlock()
			ger := l1.gers[nextIdx]
			idx := uint32(nextIdx)
			nextIdx++
			liveList = append(liveList, ger)
			ch.Mine([]fakes.LogSpec{fakes.PackLog(l2GERABI, l2GERAddr, "UpdateHashChainValue", ger, world.RandHash(g))})
			hmu.Unlock()
			for w := 0; w < 250; w++ {
				if res, err := node.s.GetFirstGERAfterL1InfoTreeIndex(context.Background(), idx); err == nil && res.GlobalExitRoot == ger {
					break
				}
				if w%10 == 9 {
					ch.Mine(nil)
				}
				time.Sleep(2 * time.Millisecond)
			}
			hmu.Lock()
		}
		if cfg.FinalFork {
			canon := ch.Canonical()
			ins := l2GERABI.Events["UpdateHashChainValue"].ID
			lastIns := uint64(0)
			for _, b := range canon {
				for _, l := range b.Logs {
					if l.Address == l2GERAddr && l.Topics[0] == ins {
						lastIns = b.Num()
					}
				}
			}
			if lastIns > ch.Finalized() && lastIns > 0 {
				before := liveGERs(canon, lastIns-1)
				var dropped []common.Hash
				for ger := range liveGERs(canon, 1<<62) {
					if !before[ger] {
						dropped = append(dropped, ger)
					}
				}
				sortHashes(dropped)
				k := 0
				noteDropped(ch, lastIns)
				nb := ch.Fork(lastIns, int(ch.Latest()-lastIns)+2+len(dropped), func(num uint64, ph common.Hash, ts uint64) []fakes.LogSpec {
					if k < len(dropped) {
						k++
						return []fakes.LogSpec{fakes.PackLog(l2GERABI, l2GERAddr, "UpdateHashChainValue", dropped[k-1], world.RandHash(g))}
					}
					return nil
				})
				if nb != nil {
					trace = append(trace, fmt.Sprintf("final fork at %d re-injects %d roots", lastIns, len(dropped)))
				}
			}
		}
		l1.mu.Lock()
		l1.known = nLeaves
		l1.mu.Unlock()
		// the chain keeps producing (empty) blocks for a while: the syncer polls for new blocks
		hmu.Unlock()
		diff := ""
		end := time.Now().Add(30 * time.Second)
		lastMine := time.Now()
		extra := 0
		for {
			canon := ch.Canonical()
			diff = c16Judge(node.s, l1, liveGERs(canon, 1<<62), ch.Latest())
			if diff == "" || time.Now().After(end) {
				break
			}
			if time.Since(lastMine) > 20*time.Millisecond && extra < 40 {
				ch.Mine(nil)
				extra++
				lastMine = time.Now()
			}
			time.Sleep(2 * time.Millisecond)
		}
		var diag map[string]any
		if diff != "" {
			diag = c16Diagnose(node.s, ch, l1)
		}
		node.stop()
		if diff != "" {
			ev := ch.Events()
			if len(ev) > 120 {
				ev = ev[len(ev)-120:]
			}
			scen["chain_events_tail"] = ev
			if dir := os.Getenv("VERIF_DEBUG_DIR"); dir != "" {
				_ = os.WriteFile(filepath.Join(dir, "C16-"+strings.ReplaceAll(caseID, "/", "_")+"-events.txt"), []byte(strings.Join(ch.Events(), "\n")), 0o644)
			}
			scen["diagnosis"] = diag
			cls := "block-by-block"
			if cfg.MaxJump > 1 {
				cls = "tip-advances-by-more-than-one"
			}
			// every disagreement is a root that is live on the canonical chain, missing in the node's
			// table, and whose removal sat on a block dropped by a fork: the destructive delete that a
			// reorg does not undo (lastgersync/processor.go deleteGERSql; known finding, see C04)
			if miss, ok := diag["missing_live_roots"].([]common.Hash); ok && len(miss) > 0 && diag["stale_rows"].(int) == 0 {
				all := true
				for _, m := range miss {
					if !droppedRemovals[m] {
						all = false
					}
				}
				if all {
					cls = "root-deleted-by-a-removal-on-a-dropped-fork-is-not-restored"
				}
			}
			r.Violation(fmt.Sprintf("C16:%s:injected-root-index-wrong:%s", cfg.Mode, cls), caseID, diff, scen)
			return
		}
		r.Eval(fmt.Sprintf("%s/jump=%d/removals=%v/restarts=%d/forks=%d/l1lag=%v/err=%v", cfg.Mode, min(cfg.MaxJump, 10), cfg.Removals, min(cfg.Restarts, 2), min(cfg.Forks, 2), cfg.L1Lag, cfg.ErrPct > 0)+fmt.Sprintf("/finalfork=%v/emptytail=%v/growcalls=%v", cfg.FinalFork, cfg.ForkEmptyTail, cfg.GrowDuringCalls))
		r.Add("ger_events_on_final_chain", len(liveGERs(ch.Canonical(), 1<<62)))
		if len(trace) > 0 {
			r.Sample(map[string]any{"config": cfg, "trace": trace, "head": ch.Latest()})
		}
	})
}

func sortHashes(h []common.Hash) {
	for a := 1; a < len(h); a++ {
		for b := a; b > 0 && h[b].Hex() < h[b-1].Hex(); b-- {
			h[b], h[b-1] = h[b-1], h[b]
		}
	}
}

func TestC16(t *testing.T) {
	r := mon.Start("C16", "exploration")
	r.Rule("real lastgersync.New (downloader + driver + processor, real reorg detector) in PP and FEP mode over the chain simulator's L2: GER insertion / removal / re-insertion events (at most one per block), " +
		"the tip advancing by 1..25 blocks between two polls, restarts at PRNG RPC call indices, forks above the finalized block, a lagging L1 info tree syncer, transient RPC errors; at quiescence " +
		"GetFirstGERAfterL1InfoTreeIndex(X) is judged for every X against the injected-and-not-removed set of the canonical chain; signature = (mode, max tip jump, removals, restarts, forks, L1 lag)")
	r.Assume("at most one GER event per L2 block (the table's primary key declares that assumption); FEP mode has no removals (its contract cannot remove roots)",
		"'whenever such a root exists' is judged at quiescence with re-evaluation for up to 30 s while the chain keeps producing empty blocks")
	workers := max(runtime.NumCPU()/2, 2)
	n := r.N(120, 2500)
	parallel(n, workers, func(i int) {
		caseID := fmt.Sprintf("run/%d", i)
		if !r.Only(caseID) {
			return
		}
		g := rng(r, "c16", i)
		cfg := c16Cfg{Mode: []string{"PP", "PP", "FEP"}[g.Intn(3)], Target: 30 + g.Intn(120), MaxJump: []int{1, 2, 5, 25}[g.Intn(4)],
			EventPct: []int{10, 40, 80}[g.Intn(3)], ErrPct: []int{0, 0, 10}[g.Intn(3)]}
		if m := os.Getenv("VERIF_C16_MODE"); m != "" { // diagnosis aid: force one mode
			cfg.Mode = m
		}
		if cfg.Mode == "PP" {
			cfg.Removals = g.Intn(2) == 0
		}
		if g.Intn(3) == 0 {
			cfg.Restarts = 1 + g.Intn(4)
		}
		if g.Intn(2) == 0 {
			cfg.Forks = 1 + g.Intn(3)
		}
		cfg.L1Lag = g.Intn(4) == 0
		cfg.FinalFork = g.Intn(3) == 0
		if cfg.Mode == "FEP" && g.Intn(2) == 0 {
			cfg.FinalFork = true // the state-polling mode must notice that a dropped injection came back
		}
		if i%5 == 3 && cfg.Mode == "FEP" {
			cfg.GrowDuringCalls, cfg.Forks, cfg.FinalFork = true, 3+g.Intn(3), false
		}
		if i%5 == 4 && cfg.Mode == "PP" {
			cfg.ForkEmptyTail, cfg.Forks, cfg.EventPct, cfg.FinalFork = true, 2+g.Intn(3), 10, false
		}
		c16Run(r, caseID, g, cfg)
	})
	finish(t, r, r.N(20, 50), "PP/*", "FEP/*")
}

var _ aggsync.ReorgDetector = (*reorgdetector.ReorgDetector)(nil)


// c16Diagnose lists the roots on which the node's table and the canonical chain disagree, with the
// canonical history of each (for the replay file)
func c16Diagnose(s *lastgersync.LastGERSync, ch *fakes.Chain, l1 *fakeL1Info) map[string]any {
	out := map[string]any{}
	canon := ch.Canonical()
	live := liveGERs(canon, 1<<62)
	inDB := map[common.Hash]string{}
	var allRows []string
	rows, err := s.VerifDB().Query(`SELECT block_num, global_exit_root, l1_info_tree_index FROM imported_global_exit_root ORDER BY block_num`)
	if err == nil {
		for rows.Next() {
			var bn uint64
			var ger string
			var idx uint32
			if rows.Scan(&bn, &ger, &idx) == nil {
				inDB[common.HexToHash(ger)] = fmt.Sprintf("block %d index %d", bn, idx)
				if len(allRows) < 60 {
					allRows = append(allRows, fmt.Sprintf("%d:%s:idx%d", bn, ger[:10], idx))
				}
			}
		}
		out["table_rows"] = allRows
		rows.Close()
	} else {
		out["db_error"] = err.Error()
	}
	hist := func(g common.Hash) []string {
		var h []string
		ins, rem := l2GERABI.Events["UpdateHashChainValue"].ID, l2GERABI.Events["UpdateRemovalHashChainValue"].ID
		for _, b := range canon {
			for _, l := range b.Logs {
				if l.Address == l2GERAddr && len(l.Topics) > 1 && l.Topics[1] == g {
					switch l.Topics[0] {
					case ins:
						h = append(h, fmt.Sprintf("inserted@%d", b.Num()))
					case rem:
						h = append(h, fmt.Sprintf("removed@%d", b.Num()))
					}
				}
			}
		}
		return h
	}
	var d []string
	stale := 0
	var missing []common.Hash
	for g, where := range inDB {
		if !live[g] {
			stale++
			d = append(d, fmt.Sprintf("%s in the node's table (%s) but not live on the canonical chain: %v", g.Hex()[:10], where, hist(g)))
		}
	}
	for g := range live {
		if _, ok := inDB[g]; !ok {
			missing = append(missing, g)
			d = append(d, fmt.Sprintf("%s live on the canonical chain (index %d) but not in the node's table: %v", g.Hex()[:10], l1.byGER[g], hist(g)))
		}
	}
	out["stale_rows"] = stale
	out["missing_live_roots"] = missing
	sort.Strings(d)
	out["disagreements"] = d
	lp, err := s.GetLastProcessedBlock(context.Background())
	out["node_last_processed"] = fmt.Sprintf("%d %v", lp, err)
	out["head"] = ch.Latest()
	out["finalized"] = ch.Finalized()
	var forks []string
	for _, e := range ch.Events() {
		if strings.HasPrefix(e, "fork") || strings.HasPrefix(e, "FORK") || strings.Contains(e, "fork ") {
			forks = append(forks, e)
		}
	}
	out["fork_events"] = forks
	return out
}
