package checks

import (
	"context"
	"database/sql"
	"encoding/json"
	"fmt"
	"math/rand"
	"path/filepath"
	"runtime"
	"sort"
	"strings"
	"sync/atomic"
	"testing"

	agglayertypes "github.com/agglayer/aggkit/agglayer/types"
	aggsenderdb "github.com/agglayer/aggkit/aggsender/db"
	aggsendertypes "github.com/agglayer/aggkit/aggsender/types"
	"github.com/agglayer/aggkit/log"
	"github.com/ethereum/go-ethereum/common"
	"verifharness/faultdb"
	"verifharness/mon"
	"verifharness/world"
)

// C13 — certificate bookkeeping survives crashes and a lost database.

// ---- storage plane: every statement of every write transaction fails once -------------------------

type c13Shadow struct {
	cur     map[uint64]aggsendertypes.Certificate
	hist    int
	keep    bool
	nonAcc  int
	lastNon string
}

func randStoredCert(g *rand.Rand, height uint64, retry int) aggsendertypes.Certificate {
	prev := world.RandHash(g)
	h := &aggsendertypes.CertificateHeader{Height: height, RetryCount: retry, CertificateID: world.RandHash(g), PreviousLocalExitRoot: &prev, NewLocalExitRoot: world.RandHash(g),
		FromBlock: uint64(g.Intn(1000)), ToBlock: uint64(1000 + g.Intn(1000)), Status: agglayertypes.CertificateStatus(g.Intn(6)), CreatedAt: g.Uint32(), UpdatedAt: g.Uint32(),
		L1InfoTreeLeafCount: g.Uint32(), CertType: aggsendertypes.CertificateTypePP, CertSource: aggsendertypes.CertificateSourceLocal}
	if g.Intn(2) == 0 {
		r := world.RandHash(g)
		h.FinalizedL1InfoTreeRoot = &r
	}
	signed := fmt.Sprintf(`{"network_id":1,"height":%d,"x":"%x"}`, height, g.Uint64())
	c := aggsendertypes.Certificate{Header: h, SignedCertificate: &signed, ExtraData: fmt.Sprintf("e%d", g.Intn(100))}
	if g.Intn(3) == 0 {
		c.AggchainProof = &aggsendertypes.AggchainProof{LastProvenBlock: h.FromBlock, EndBlock: h.ToBlock, CustomChainData: []byte{1, 2, 3}, LocalExitRoot: h.NewLocalExitRoot, AggchainParams: world.RandHash(g),
			Context: map[string][]byte{"k": {9}}, SP1StarkProof: &aggsendertypes.SP1StarkProof{Version: "v1", Proof: []byte{7, 7}, Vkey: []byte{8}}, Signature: []byte{1}}
	}
	return c
}

func jsonOf(v any) string {
	b, _ := json.Marshal(v)
	return string(b)
}

func countRows(dbh *sql.DB, table string) int {
	var n int
	if err := dbh.QueryRow("SELECT COUNT(*) FROM " + table).Scan(&n); err != nil {
		return -1
	}
	return n
}

// verify compares the storage with the shadow through the storage's own read API
func (sh *c13Shadow) verify(st *aggsenderdb.AggSenderSQLStorage) string {
	var maxH uint64
	for h, want := range sh.cur {
		got, err := st.GetCertificateByHeight(h)
		if err != nil || got == nil {
			return fmt.Sprintf("GetCertificateByHeight(%d): %v", h, err)
		}
		if jsonOf(got) != jsonOf(want) {
			return fmt.Sprintf("height %d: stored %s, expected %s", h, clip(jsonOf(got), 300), clip(jsonOf(want), 300))
		}
		if h > maxH {
			maxH = h
		}
	}
	last, err := st.GetLastSentCertificate()
	if err != nil {
		return "GetLastSentCertificate: " + err.Error()
	}
	if len(sh.cur) == 0 {
		if last != nil {
			return "GetLastSentCertificate returns a record from an empty store"
		}
	} else if last == nil || jsonOf(last) != jsonOf(sh.cur[maxH]) {
		return fmt.Sprintf("GetLastSentCertificate is not the record of the highest height %d", maxH)
	}
	if n := countRows(st.VerifDB(), "certificate_info"); n != len(sh.cur) {
		return fmt.Sprintf("certificate_info holds %d rows, expected %d (one per height)", n, len(sh.cur))
	}
	wantHist := 0
	if sh.keep {
		wantHist = sh.hist
	}
	if n := countRows(st.VerifDB(), "certificate_info_history"); n != wantHist {
		return fmt.Sprintf("certificate_info_history holds %d rows, expected %d", n, wantHist)
	}
	return ""
}

func c13StorageCase(r *mon.Run, caseID string, g *rand.Rand, keep bool, nOps int) {
	sc := map[string]any{"keep_history": keep}
	var trace []string
	sc["ops"] = &trace
	guard(r, caseID, sc, func() {
		path := filepath.Join(scratchDir("c13st"), "aggsender.sqlite")
		dbh, ctl, err := faultdb.Open(path)
		if err != nil {
			r.Inconclusive("faultdb: " + err.Error())
			return
		}
		defer dbh.Close()
		dbh.SetMaxOpenConns(4)
		st, err := aggsenderdb.VerifNewAggSenderSQLStorageWithDB(log.WithFields("m", "c13"), aggsenderdb.AggSenderSQLStorageConfig{DBPath: path, KeepCertificatesHistory: keep}, dbh)
		if err != nil {
			r.Inconclusive("storage: " + err.Error())
			return
		}
		sh := &c13Shadow{cur: map[uint64]aggsendertypes.Certificate{}, keep: keep}
		ctl.OnlyInTx(true)
		heights := func() []uint64 {
			var hs []uint64
			for h := range sh.cur {
				hs = append(hs, h)
			}
			sort.Slice(hs, func(i, j int) bool { return hs[i] < hs[j] })
			return hs
		}
		for op := 0; op < nOps; op++ {
			hs := heights()
			kind := []string{"save-new-height", "save-new-height", "save-replace", "save-replace", "update-status", "update-unknown", "delete", "save-lower-gap"}[g.Intn(8)]
			if len(hs) == 0 {
				kind = "save-new-height"
			}
			var run func(ctx context.Context) error
			var apply func()
			pre := "row-absent"
			switch kind {
			case "save-new-height", "save-lower-gap":
				h := uint64(0)
				if len(hs) > 0 {
					h = hs[len(hs)-1] + 1
				}
				if kind == "save-lower-gap" {
					h += uint64(1 + g.Intn(3))
				}
				c := randStoredCert(g, h, 0)
				run = func(ctx context.Context) error { return st.SaveLastSentCertificate(ctx, c) }
				apply = func() { sh.cur[h] = c }
			case "save-replace":
				h := hs[g.Intn(len(hs))]
				old := sh.cur[h]
				c := randStoredCert(g, h, old.Header.RetryCount+1)
				if g.Intn(5) == 0 {
					c.Header.CertificateID = old.Header.CertificateID // same certificate stored again
				}
				pre = "row-present"
				run = func(ctx context.Context) error { return st.SaveLastSentCertificate(ctx, c) }
				apply = func() { sh.cur[h] = c; sh.hist++ }
			case "update-status":
				h := hs[g.Intn(len(hs))]
				old := sh.cur[h]
				ns, at := agglayertypes.CertificateStatus(g.Intn(6)), g.Uint32()
				pre = "row-present"
				run = func(ctx context.Context) error { return st.UpdateCertificateStatus(ctx, old.Header.CertificateID, ns, at) }
				apply = func() {
					hd := *old.Header
					hd.Status, hd.UpdatedAt = ns, at
					old.Header = &hd
					sh.cur[h] = old
				}
			case "update-unknown":
				id := world.RandHash(g)
				run = func(ctx context.Context) error { return st.UpdateCertificateStatus(ctx, id, agglayertypes.Settled, 1) }
				apply = func() {}
			case "delete":
				h := hs[g.Intn(len(hs))]
				id := sh.cur[h].Header.CertificateID
				pre = "row-present"
				run = func(ctx context.Context) error { return st.DeleteCertificate(ctx, id) }
				apply = func() { delete(sh.cur, h) }
			}
			cancelMode := g.Intn(4) == 0
			// every statement of the transaction fails once (k = 1, 2, ... until the fault no longer fires)
			for k := 1; k <= 16; k++ {
				before, err := dbFingerprint(dbh)
				if err != nil {
					r.Inconclusive("fingerprint: " + err.Error())
					return
				}
				ctx, cancel := context.WithCancel(context.Background())
				var opErr error
				fired := false
				failed := ""
				if cancelMode {
					var n atomic.Int64
					ctl.Arm(0, true)
					ctl.SetDelay(func(kindS, q string) {
						if n.Add(1) == int64(k) {
							cancel()
						}
					})
					opErr = run(ctx)
					ctl.SetDelay(nil)
					cnt, _, lg := ctl.Disarm()
					fired = cnt >= k && int(n.Load()) >= k
					if fired && k-1 < len(lg) {
						failed = "cancel-before " + lg[min(k-1, len(lg)-1)]
					}
				} else {
					ctl.Arm(k, true)
					opErr = run(ctx)
					var lg []string
					_, fired, lg = ctl.Disarm()
					if fired {
						failed = lg[len(lg)-1]
					}
				}
				cancel()
				trace = append(trace, fmt.Sprintf("%s k=%d fired=%v err=%v", kind, k, fired, opErr != nil))
				if len(trace) > 60 {
					trace = trace[len(trace)-60:]
				}
				if opErr != nil {
					after, err := dbFingerprint(dbh)
					if err != nil {
						r.Inconclusive("fingerprint: " + err.Error())
						return
					}
					if d := fpDiff(before, after); len(d) > 0 {
						r.Violation("C13:failed-write-changed-the-store:"+kind, caseID, fmt.Sprintf("%s failed (%s: %v) but the store changed: %s", kind, failed, opErr, clip(strings.Join(d, "; "), 600)), sc)
						return
					}
					if msg := sh.verify(st); msg != "" {
						r.Violation("C13:failed-write-changed-the-store:"+kind, caseID, fmt.Sprintf("%s failed (%s) and the previous record is no longer intact: %s", kind, failed, msg), sc)
						return
					}
					if fired {
						r.Eval(fmt.Sprintf("storage/%s/%s/keep=%v/fault=%s", kind, pre, keep, firstWords(failed, 4)))
					}
					if !fired {
						// an error without an injected fault: the operation itself is refused (allowed; state unchanged)
						break
					}
					continue
				}
				// success: the whole new state is there
				apply()
				if msg := sh.verify(st); msg != "" {
					r.Violation("C13:successful-write-incomplete:"+kind, caseID, fmt.Sprintf("%s returned no error (fault fired: %v %s) but: %s", kind, fired, failed, msg), sc)
					return
				}
				r.Eval(fmt.Sprintf("storage/%s/%s/keep=%v/ok", kind, pre, keep))
				break
			}
		}
		r.Add("storage_operations", nOps)
	})
}

// ---- walk plane ------------------------------------------------------------------------------------

func c13Walk(r *mon.Run, caseID string, g *rand.Rand, cfg asNodeCfg, steps []int, length int, alphabet []int) {
	guard(r, caseID, map[string]any{"config": cfg, "steps": steps}, func() {
		a, err := newASRun(r, caseID, g, cfg, "C13")
		if err != nil {
			r.Inconclusive("cannot build the aggsender world: " + err.Error())
			return
		}
		defer a.close()
		if steps != nil {
			for _, s := range steps {
				if a.dead {
					break
				}
				a.step(s)
			}
		} else {
			for i := 0; i < length && !a.dead; i++ {
				a.step(alphabet[g.Intn(len(alphabet))])
			}
		}
		a.finish()
		r.Eval(fmt.Sprintf("walk/fep=%v/retry=%v/history=%v/restarts=%d/crashes=%d/certs=%d", cfg.FEP, cfg.RetryAfterInError, cfg.KeepHistory, min(a.restarts, 4), min(a.crashes, 3), min(len(a.m.certs), 4)))
		if a.crashes > 0 && len(a.m.certs) > 1 {
			r.Sample(map[string]any{"config": cfg, "steps": strings.Join(tailStr(a.trace, 30), " "), "certificates": len(a.m.certs), "process_deaths": a.crashes, "restarts": a.restarts})
		}
	})
}

func TestC13(t *testing.T) {
	r := mon.Start("C13", "fault_enumeration")
	r.Rule("(a) the real AggSender over real stores and the model Agglayer; alphabet = C02's plus {restart, process death before submit / after the Agglayer recorded the certificate and before it is stored / at the next Agglayer call, " +
		"certificate database deleted, epoch tick with the k-th statement of a storage transaction failing followed by a restart, database replaced by an older copy, Agglayer forgets / re-identifies its last certificate}; " +
		"all sequences up to depth D after a prefix, then PRNG walks; x RetryCertAfterInError x KeepCertificatesHistory x flow; oracles: after every restart without contradiction the node does not refuse and its last record is the Agglayer's last certificate, " +
		"the next certificate passes the Agglayer's height / previous-root / first-block checks, constructed contradictions are refused, never two rows per height, a failed write removes no record; " +
		"(b) the real certificate storage through a fault-injecting database/sql driver: every statement (and commit) of every write transaction fails once, also by context cancellation; failed => database fingerprint unchanged, succeeded => complete new state")
	r.Assume("a process death is modelled by abandoning every Go object of the node and building a new AggSender on the same files (SQLite commits are durable at COMMIT; the strace kill plane of C07 covers real kills of SQLite writers)",
		"start-up reconciliation is given 4 complete rounds of recovery queries; not succeeding within them counts as 'refuses to proceed'")
	workers := runtime.NumCPU()
	cfgs := []asNodeCfg{
		{RetryAfterInError: true}, {RetryAfterInError: false, KeepHistory: true},
		{RetryAfterInError: true, ExternalPP: true, FaultDB: true, KeepHistory: true}, {RetryAfterInError: false, ExternalPP: true, FaultDB: true},
		{RetryAfterInError: true, FEP: true, FaultDB: true}, {RetryAfterInError: true, KeepHistory: true},
	}

	// ---- exhaustive small depth after a prefix that creates an open certificate -----------------------
	depth := r.N(3, 4)
	exAlpha := []int{stL2Events, stEpoch, stStatus, stInError, stSettle, stRestart, stCrashSend, stCrashEntry, stCrashNext, stLoseDB}
	var seqs [][]int
	var gen func(pre []int)
	gen = func(pre []int) {
		if len(pre) == depth {
			seqs = append(seqs, append([]int{}, pre...))
			return
		}
		for _, s := range exAlpha {
			gen(append(pre, s))
		}
	}
	gen(nil)
	prefixes := [][]int{{stL2Events, stEpoch}, {stL2Events, stEpoch, stInError, stStatus, stL2Events}, {stL2Events, stEpoch, stSettle, stStatus, stL2Events, stEpoch}}
	nEx := len(seqs) * len(prefixes)
	r.Set("exhaustive_sequences", nEx)
	r.Set("exhaustive_box", fmt.Sprintf("all %d^%d sequences over {L2events, epoch, status, inError, settle, restart, crashAfterSubmit, crashBeforeSubmit, crashNextCall, loseDB} after each of %d prefixes (open / in-error / settled+open certificate), followed by [L2events epoch settle status epoch]", len(exAlpha), depth, len(prefixes)))
	parallel(nEx, workers, func(i int) {
		caseID := fmt.Sprintf("ex/%d", i)
		if !r.Only(caseID) {
			return
		}
		seq := append(append([]int{}, prefixes[i%len(prefixes)]...), seqs[i/len(prefixes)]...)
		seq = append(seq, stL2Events, stEpoch, stSettle, stStatus, stEpoch)
		c13Walk(r, caseID, rng(r, "c13ex", i), cfgs[(i/len(prefixes))%2], seq, 0, nil)
	})

	// ---- random walks -----------------------------------------------------------------------------------
	alphabet := []int{stL2Events, stL2Events, stL2Empty, stEpoch, stEpoch, stEpoch, stStatus, stAdvance, stInError, stInError, stFailBefore, stL1Advance, stSettle, stSettle,
		stRestart, stCrashSend, stCrashSend, stCrashEntry, stCrashNext, stLoseDB, stSaveFault, stSaveFault, stSnapshot, stReadFault, stReadFault}
	nWalks := r.N(150, 4000)
	parallel(nWalks, workers, func(i int) {
		caseID := fmt.Sprintf("walk/%d", i)
		if !r.Only(caseID) {
			return
		}
		g := rng(r, "c13walk", i)
		al := alphabet
		switch i % 5 {
		case 1:
			al = append(append([]int{}, alphabet...), stStaleDB)
		case 2:
			al = append(append([]int{}, alphabet...), stForget)
		case 3:
			al = append(append([]int{}, alphabet...), stDiverge)
		}
		c13Walk(r, caseID, g, cfgs[g.Intn(len(cfgs))], nil, 30+g.Intn(r.N(40, 90)), al)
	})

	// ---- stale copy campaign: the database is replaced by a copy that is k certificates old ---------------
	nStale := r.N(60, 1500)
	parallel(nStale, workers, func(i int) {
		caseID := fmt.Sprintf("stale/%d", i)
		if !r.Only(caseID) {
			return
		}
		g := rng(r, "c13stale", i)
		var seq []int
		for k := g.Intn(3); k > 0; k-- { // settled prefix
			seq = append(seq, stL2Events, stEpoch, stSettle, stStatus)
		}
		seq = append(seq, stL2Events, stEpoch)
		switch g.Intn(4) { // state of the last local record when the copy is taken
		case 0:
			seq = append(seq, stInError, stStatus)
		case 1:
			seq = append(seq, stSettle, stStatus)
		case 2:
			seq = append(seq, stInError) // local record still says Pending
		}
		seq = append(seq, stSnapshot)
		for k := g.Intn(4); k > 0; k-- { // the node moves on by k certificates
			seq = append(seq, stL2Events, stEpoch, stStatus, stEpoch, stSettle, stStatus)
		}
		if g.Intn(2) == 0 {
			seq = append(seq, stL2Events, stEpoch)
		}
		seq = append(seq, stStaleDB, stL2Events, stEpoch, stSettle, stStatus, stEpoch)
		c13Walk(r, caseID, g, cfgs[g.Intn(len(cfgs))], seq, 0, nil)
	})

	// ---- storage plane --------------------------------------------------------------------------------
	nSt := r.N(16, 400)
	parallel(nSt, workers, func(i int) {
		caseID := fmt.Sprintf("storage/%d", i)
		if !r.Only(caseID) {
			return
		}
		c13StorageCase(r, caseID, rng(r, "c13st", i), i%2 == 0, r.N(25, 60))
	})
	finish(t, r, r.N(30, 60), "restart/lostDB=true/*", "restart/lostDB=false/agglayer=Pending", "restart/lostDB=false/agglayer=InError", "restart/lostDB=false/agglayer=Settled",
		"storage/save-replace/row-present/keep=true/fault=*", "storage/save-replace/row-present/keep=false/fault=*", "storage-fault/*", "contradiction/*", "restart/stale-copy/*")
}

var _ = common.Hash{}
