package checks

import (
	"fmt"
	"math/rand"
	"os"
	"strings"

	agglayertypes "github.com/agglayer/aggkit/agglayer/types"
	aggsenderdb "github.com/agglayer/aggkit/aggsender/db"
	aggsendertypes "github.com/agglayer/aggkit/aggsender/types"
	"github.com/ethereum/go-ethereum/common"
	"verifharness/mon"
)

// Step alphabet of the aggsender scenarios
const (
	stL2Events = iota // new L2 block with bridges and/or claims
	stL2Empty         // new empty L2 block
	stEpoch           // epoch tick (real select arm)
	stStatus          // status-check tick (real select arm)
	stAdvance         // Agglayer moves the open certificate one status forward
	stInError         // Agglayer moves the open certificate to InError
	stFailBefore      // the next Agglayer call fails before taking effect
	stFailAfter       // the next SendCertificate takes effect but its response is lost
	stL1Advance       // L1 grows (new info leaves) and finalizes
	stSettle          // Agglayer settles the open certificate
	stRestart         // the node is stopped and restarted on the same files
	stCrashSend       // the process dies after the Agglayer recorded the next certificate, before it is stored
	stCrashEntry      // the process dies at the entry of the next SendCertificate
	stCrashNext       // the process dies at its next Agglayer call
	stLoseDB          // the node is stopped, its certificate database is deleted, and it restarts
	stSaveFault       // epoch tick during which the k-th statement inside a storage transaction fails; then the node is restarted
	stSnapshot        // the operator copies the certificate database (node idle)
	stStaleDB         // the node is stopped, its certificate database is replaced by the last copy, and it restarts
	stForget          // the Agglayer loses its most recent certificate(s); the node restarts
	stDiverge         // the Agglayer's most recent certificate gets a different id; the node restarts
	stReadFault       // epoch or status tick during which the k-th storage statement of any kind (also plain reads) fails
	stL2Reorg         // the last 1-3 L2 blocks that no settled or open certificate covers are reorged; the chain continues differently
	nSteps
)

var stepNames = []string{"L2events", "L2empty", "epoch", "status", "advance", "inError", "failBefore", "failAfter", "L1advance", "settle", "restart", "crashAfterSubmit", "crashBeforeSubmit", "crashNextCall", "loseDB", "epoch+storageFault", "snapshotDB", "staleDB", "agglayerForgets", "agglayerDiverges", "tick+readFault", "L2reorg"}

// asRun is one execution of the aggsender world
type asRun struct {
	r        *mon.Run
	caseID   string
	w        *asWorld
	m        *modelAgglayer
	node     *asNode
	cfg      asNodeCfg
	keystore string
	trace    []string
	scen     map[string]any
	// coverage
	cov       map[string]bool
	reported  int // number of model checks already turned into violations
	dead      bool
	refused   bool
	props     map[string]bool // properties whose failed checks are reported by this run
	other     int
	lostResp  map[common.Hash]bool
	crashes   int
	nSettled  int
	restarts  int
	storageFaults int // storage faults injected during ticks (stReadFault)
	snapshot  string // directory holding the last copy of the certificate database
	mustRefuse string // non-empty: a contradiction was constructed, the node must refuse to proceed
	tampered   bool   // the Agglayer's records were altered (forget / diverge): the scenario ends with the restart
	lenient    bool   // a stale copy of the database was restored: refusing and reconciling are both acceptable
}

func newASRun(r *mon.Run, caseID string, g *rand.Rand, cfg asNodeCfg, props ...string) (*asRun, error) {
	dir := scratchDir("as")
	w, err := newASWorld(g, dir)
	if err != nil {
		return nil, err
	}
	ks, key, err := newKeystore(dir)
	if err != nil {
		return nil, err
	}
	a := &asRun{r: r, caseID: caseID, w: w, cfg: cfg, keystore: ks, cov: map[string]bool{}, props: map[string]bool{}, lostResp: map[common.Hash]bool{}}
	for _, p := range props {
		a.props[p] = true
	}
	a.m = newModelAgglayer(w, addrOf(key))
	a.scen = map[string]any{"config": cfg, "trace": &a.trace}
	// a finalized L1 info leaf exists before anything else (the oracle needs one too)
	for i := 0; i < 2; i++ {
		if err := w.l1Step(true, true); err != nil {
			return nil, err
		}
	}
	n, refused, err := newASNode(w, a.m, ks, cfg)
	if err != nil && !refused {
		return nil, err
	}
	a.node, a.refused = n, refused
	return a, nil
}

func (a *asRun) close() { a.closeNode(); a.w.close() }

// closeNode releases the file handles of the current node incarnation (a dead process holds none)
func (a *asRun) closeNode() {
	if a.node != nil && a.node.as != nil {
		if st, ok := a.node.as.VerifStorage().(*aggsenderdb.AggSenderSQLStorage); ok {
			_ = st.VerifDB().Close()
		}
	}
	a.node = nil
}

// violate reports a violation of one of this run's properties
func (a *asRun) violate(sig, what string) {
	if strings.HasPrefix(sig, "C02:") && len(a.lostResp) > 0 && !strings.HasSuffix(sig, ":after-lost-response") {
		sig += ":after-lost-response"
	}
	a.scen["agglayer_events"] = tailStr(a.m.events, 80)
	a.r.Violation(sig, a.caseID, what+"; steps: "+strings.Join(tailStr(a.trace, 40), " "), a.scen)
}

func tailStr(s []string, n int) []string {
	if len(s) > n {
		return s[len(s)-n:]
	}
	return s
}

// collect turns new failed model checks into violations (own properties) or counts them
func (a *asRun) collect() {
	a.m.mu.Lock()
	checks := append([]asCheck{}, a.m.checks[a.reported:]...)
	a.reported = len(a.m.checks)
	a.m.mu.Unlock()
	for _, c := range checks {
		if a.props["C13"] && (a.restarts > 0 || a.storageFaults > 0) && c.Prop == "C02" {
			// the next certificate after a restart / a storage fault has the correct height, previous
			// exit root and first block
			tag := "after-restart"
			if a.restarts == 0 {
				tag = "after-storage-fault"
			}
			a.violate("C13:"+tag+":"+strings.TrimPrefix(c.Sig, "C02:"), c.What)
			continue
		}
		if !a.props[c.Prop] {
			a.other++
			continue
		}
		sig := c.Sig
		if c.Prop == "C02" && len(a.lostResp) > 0 {
			// a SendCertificate response was lost earlier in this run: the node has no record of a
			// certificate the Agglayer holds; what follows is the consequence of that (known finding)
			sig += ":after-lost-response"
		}
		a.violate(sig, c.What)
	}
}

// openCertBefore: the open certificate that existed before the last submission
func (m *modelAgglayer) openCertBefore() *mCert {
	for i := len(m.certs) - 2; i >= 0; i-- {
		if m.certs[i].Status.IsOpen() {
			return m.certs[i]
		}
	}
	return nil
}

// step executes one step of the alphabet; it returns a description
func (a *asRun) step(s int) string {
	g := a.w.g
	desc := stepNames[s]
	prevState := a.prevCertState()
	sendsBefore := a.m.sends
	switch s {
	case stL2Events:
		d, err := a.w.l2Block(1 + g.Intn(3))
		if err != nil {
			a.r.Inconclusive("world: " + err.Error())
			a.dead = true
		}
		desc = d
	case stL2Empty:
		if _, err := a.w.l2Block(0); err != nil {
			a.r.Inconclusive("world: " + err.Error())
			a.dead = true
		}
	case stL2Reorg:
		a.m.mu.Lock()
		open := a.m.openCert() != nil
		low := uint64(1)
		if ls := a.m.lastSettled(); ls != nil {
			low = ls.To + 1
		}
		a.m.mu.Unlock()
		if open || a.w.l2Next <= low {
			desc += "(nothing reorgable)"
			break
		}
		b := a.w.l2Next - uint64(1+g.Intn(3))
		if a.w.l2Next < 4 || b < low {
			b = low
		}
		oldNext := a.w.l2Next
		if err := a.w.l2Reorg(b); err != nil {
			a.r.Inconclusive("world: L2 reorg: " + err.Error())
			a.dead = true
			break
		}
		// the new fork is at least as long as the one it replaces (that is why it wins)
		for a.w.l2Next < oldNext {
			if _, err := a.w.l2Block(g.Intn(4)); err != nil {
				a.r.Inconclusive("world: " + err.Error())
				a.dead = true
				break
			}
		}
		desc = fmt.Sprintf("L2reorg(from %d, new fork up to %d)", b, a.w.l2Next-1)
		a.cov["l2-reorg"] = true
	case stReadFault:
		if a.node == nil || a.refused || a.node.fault == nil {
			desc += "(n/a)"
			break
		}
		func() {
			defer func() {
				if p := recover(); p != nil {
					cs, ok := p.(crashSentinel)
					if !ok {
						panic(p)
					}
					desc += "(DIES at " + cs.point + ")"
					a.crashes++
					a.restart(false)
				}
			}()
			f := a.node.fault
			f.OnlyInTx(false)
			f.Arm(1+g.Intn(6), true)
			if g.Intn(3) == 0 {
				a.node.statusStep()
			} else {
				a.node.epochStep()
			}
			n, fired, lg := f.Disarm()
			f.OnlyInTx(true)
			if fired {
				a.storageFaults++
				desc += fmt.Sprintf("(FAILS statement %d: %s)", n, clip(lg[len(lg)-1], 70))
				a.cov["read-fault/"+firstWords(lg[len(lg)-1], 3)] = true
				a.m.mu.Lock()
				sentNow := a.m.sends > sendsBefore
				a.m.mu.Unlock()
				if sentNow {
					// the fault hit the save of a certificate that had just been submitted: the node
					// reported "error saving certificate"; like after stSaveFault the operator restarts it
					a.trace = append(a.trace, desc)
					desc = "restart(after storage fault)"
					a.restart(false)
				}
			} else {
				desc += "(no fault)"
			}
		}()
	case stEpoch, stStatus, stSaveFault:
		if a.node == nil || a.refused {
			desc += "(node refuses)"
			break
		}
		var heightsBefore map[uint64]bool
		if s == stSaveFault {
			if a.node.fault == nil {
				desc += "(n/a)"
				break
			}
			heightsBefore = a.rowHeights()
			a.node.fault.OnlyInTx(true)
			a.node.fault.Arm(1+g.Intn(7), true)
		}
		func() {
			defer func() {
				if p := recover(); p != nil {
					cs, ok := p.(crashSentinel)
					if !ok {
						panic(p)
					}
					desc += "(DIES at " + cs.point + ")"
					a.crashes++
					a.restart(false)
				}
			}()
			if s == stEpoch || s == stSaveFault {
				a.node.epochStep()
			} else {
				a.node.statusStep()
			}
		}()
		if s == stSaveFault && a.node != nil && a.node.fault != nil {
			n, fired, lg := a.node.fault.Disarm()
			if !fired {
				desc += fmt.Sprintf("(no fault: %d statements)", n)
				break
			}
			failed := lg[len(lg)-1]
			desc += fmt.Sprintf("(FAILS statement %d: %s)", n, failed)
			a.cov["storage-fault/"+firstWords(failed, 4)] = true
			// a failed write leaves the previous record intact: no height loses its row
			after := a.rowHeights()
			for h := range heightsBefore {
				if !after[h] {
					a.violate(a.r.Prop+":failed-write-removed-previous-record", fmt.Sprintf("a storage fault (%s) during the epoch tick removed the record of height %d", failed, h))
				}
			}
			a.trace = append(a.trace, desc)
			desc = "restart(after storage fault)"
			a.restart(false)
		}
	case stAdvance:
		desc = a.m.advance()
	case stInError:
		desc = a.m.failCert()
	case stSettle:
		desc = a.m.settle()
	case stFailBefore:
		a.m.mu.Lock()
		a.m.failNext = "before"
		a.m.mu.Unlock()
	case stFailAfter:
		a.m.mu.Lock()
		a.m.failNext = "after"
		a.m.mu.Unlock()
	case stL1Advance:
		if err := a.w.l1Step(g.Intn(2) == 0, g.Intn(3) != 0); err != nil {
			a.r.Inconclusive("world: " + err.Error())
			a.dead = true
		}
	case stRestart:
		a.restart(false)
	case stLoseDB:
		a.restart(true)
	case stSnapshot:
		if a.node == nil {
			break
		}
		a.snapshot = scratchDir("assnap")
		for _, suf := range []string{"", "-wal", "-shm"} {
			if b, err := os.ReadFile(a.w.dir + "/aggsender.sqlite" + suf); err == nil {
				_ = os.WriteFile(a.snapshot+"/aggsender.sqlite"+suf, b, 0o600)
			}
		}
	case stStaleDB:
		if a.snapshot == "" {
			desc += "(no copy)"
			break
		}
		a.closeNode()
		a.lenient = true
		removeSQLite(a.w.dir + "/aggsender.sqlite")
		for _, suf := range []string{"", "-wal", "-shm"} {
			if b, err := os.ReadFile(a.snapshot + "/aggsender.sqlite" + suf); err == nil {
				_ = os.WriteFile(a.w.dir+"/aggsender.sqlite"+suf, b, 0o600)
			}
		}
		a.restart(false)
	case stForget, stDiverge:
		if a.node == nil || a.refused {
			desc += "(node refuses)"
			break
		}
		rows, err := a.node.rows()
		if err != nil || len(rows) == 0 {
			desc += "(no local record)"
			break
		}
		local := rows[0]
		for _, row := range rows {
			if row.Height > local.Height {
				local = row
			}
		}
		a.tampered = true
		a.m.mu.Lock()
		if s == stForget {
			k := 1 + g.Intn(2)
			for ; k > 0 && len(a.m.certs) > 0; k-- {
				last := a.m.certs[len(a.m.certs)-1]
				delete(a.m.byID, last.ID)
				a.m.certs = a.m.certs[:len(a.m.certs)-1]
				a.m.ev("AGGLAYER FORGETS %s (height %d)", last.ID.Hex()[:10], last.Cert.Height)
			}
			if lr := a.m.latestForRecovery(); lr == nil || lr.Cert.Height < local.Height {
				a.mustRefuse = "local-record-ahead-of-agglayer"
			}
		} else if len(a.m.certs) > 0 {
			last := a.m.certs[len(a.m.certs)-1]
			if lr := a.m.latestForRecovery(); lr == last {
				delete(a.m.byID, last.ID)
				last.ID[5] ^= 0x55
				a.m.byID[last.ID] = last
				a.m.ev("AGGLAYER's certificate of height %d now has id %s", last.Cert.Height, last.ID.Hex()[:10])
				if last.Cert.Height == local.Height && !local.Status.IsInError() {
					a.mustRefuse = "same-height-different-id"
				}
			}
		}
		a.m.mu.Unlock()
		a.restart(false)
		if a.mustRefuse != "" {
			if !a.refused {
				a.violate(a.r.Prop+":proceeds-despite-contradiction:"+a.mustRefuse, fmt.Sprintf("the node's last record is %s, the Agglayer's records contradict it (%s), yet the node passes its start-up check", rowsString([]*aggsendertypes.CertificateHeader{local}), a.mustRefuse))
			} else {
				a.cov["contradiction/"+a.mustRefuse+"/refused"] = true
			}
		}
		a.dead = true // the scenario ends here: the two sides can never agree again
	case stCrashSend:
		a.m.mu.Lock()
		a.m.crashAt = "send-after-record"
		a.m.mu.Unlock()
	case stCrashEntry:
		a.m.mu.Lock()
		a.m.crashAt = "send-entry"
		a.m.mu.Unlock()
	case stCrashNext:
		a.m.mu.Lock()
		a.m.crashAt = "next-call"
		a.m.mu.Unlock()
	}
	// lost responses
	a.m.mu.Lock()
	if a.m.sends > sendsBefore && len(a.m.certs) > 0 {
		last := a.m.certs[len(a.m.certs)-1]
		for _, e := range tailStr(a.m.events, 3) {
			if strings.Contains(e, "response is lost") {
				a.lostResp[last.ID] = true
			}
		}
	}
	sent := a.m.sends > sendsBefore
	a.m.mu.Unlock()
	a.trace = append(a.trace, desc)
	if s == stEpoch || s == stStatus {
		out := "skipped"
		if sent {
			out = "sent"
		} else if a.node != nil && a.node.as.VerifLastError() != "" {
			out = "error"
		}
		a.cov[fmt.Sprintf("prev=%s/%s/%s", prevState, stepNames[s], out)] = true
	}
	a.collect()
	a.rowMonitor()
	a.conservation(false)
	return desc
}

// restart abandons every Go object of the node and builds a new AggSender on the same files
func (a *asRun) restart(loseDB bool) {
	a.closeNode()
	if loseDB {
		removeSQLite(a.w.dir + "/aggsender.sqlite")
	}
	a.m.mu.Lock()
	a.m.crashAt, a.m.failNext = "", ""
	a.m.mu.Unlock()
	n, refused, err := newASNode(a.w, a.m, a.keystore, a.cfg)
	if err != nil && !refused {
		a.r.Inconclusive("cannot rebuild the aggsender: " + err.Error())
		a.dead = true
		return
	}
	a.node, a.refused = n, refused
	a.restarts++
	if refused {
		a.trace = append(a.trace, "(restart: node refuses to proceed: "+clip(err.Error(), 120)+")")
	}
	a.afterRestart(loseDB)
}

// afterRestart (C13): a node whose records do not contradict the Agglayer's must reconcile – its
// last record is the Agglayer's last certificate – and must not refuse
func (a *asRun) afterRestart(lostDB bool) {
	if !a.props["C13"] || a.tampered {
		return
	}
	lenient := a.lenient
	a.lenient = false
	a.m.mu.Lock()
	lr := a.m.latestForRecovery()
	a.m.mu.Unlock()
	var local *aggsendertypes.CertificateHeader
	if a.node != nil {
		if rows, err := a.node.rows(); err == nil {
			for _, row := range rows {
				if local == nil || row.Height > local.Height {
					local = row
				}
			}
		}
	}
	class := "agglayer=none"
	if lr != nil {
		class = "agglayer=" + lr.Status.String()
	}
	if a.refused && lenient {
		a.cov["restart/stale-copy/refused"] = true
		a.dead = true
		return
	}
	if a.refused {
		lc := "local=none"
		if local != nil {
			lc = "local=" + local.Status.String()
			if lr != nil {
				switch {
				case local.CertificateID == lr.ID:
					lc += "/same-certificate"
				case local.Height == lr.Cert.Height:
					lc += "/same-height-other-id"
				case local.Height+1 == lr.Cert.Height:
					lc += "/agglayer-one-ahead"
				default:
					lc += "/other"
				}
			}
		}
		a.violate("C13:refuses-although-records-do-not-contradict:"+lc+"/"+class, fmt.Sprintf("after a stop the node refuses to proceed although every record it holds was produced by itself and accepted by the Agglayer (local last record: %s; Agglayer's last certificate: %s); last error: %s",
			rowsString([]*aggsendertypes.CertificateHeader{local}), mcString(lr), a.node.as.VerifLastError()))
		a.dead = true
		return
	}
	if lenient {
		a.cov["restart/stale-copy/reconciled"] = true
	}
	a.cov[fmt.Sprintf("restart/lostDB=%v/%s", lostDB, class)] = true
	if lr == nil {
		return
	}
	if local == nil || local.CertificateID != lr.ID || local.Status != lr.Status {
		a.violate("C13:after-restart:last-record-is-not-the-agglayers-last-certificate", fmt.Sprintf("after the restart the node's last record is %s, the Agglayer's last certificate is %s", rowsString([]*aggsendertypes.CertificateHeader{local}), mcString(lr)))
		return
	}
	if local.Height != lr.Cert.Height || local.FromBlock != lr.From || !lr.endsAt(local.ToBlock) || local.NewLocalExitRoot != lr.Cert.NewLocalExitRoot {
		a.violate("C13:after-restart:reconciled-record-has-wrong-range-or-root", fmt.Sprintf("after the restart the node's last record is %s, the Agglayer's last certificate is %s", rowsString([]*aggsendertypes.CertificateHeader{local}), mcString(lr)))
	}
}

func mcString(c *mCert) string {
	if c == nil {
		return "none"
	}
	return fmt.Sprintf("h%d:%s:%s[%d,%d]", c.Cert.Height, c.ID.Hex()[:8], c.Status, c.From, c.To)
}

func (a *asRun) rowHeights() map[uint64]bool {
	out := map[uint64]bool{}
	if a.node == nil {
		return out
	}
	if rows, err := a.node.rows(); err == nil {
		for _, row := range rows {
			out[row.Height] = true
		}
	}
	return out
}

func (a *asRun) prevCertState() string {
	a.m.mu.Lock()
	defer a.m.mu.Unlock()
	if len(a.m.certs) == 0 {
		return "none"
	}
	switch c := a.m.certs[len(a.m.certs)-1]; {
	case c.Status == agglayertypes.Settled:
		return "settled"
	case c.Status == agglayertypes.InError:
		return "inError"
	default:
		return "open"
	}
}

// rowMonitor: at most one row per height; a locally produced row equals what was sent
func (a *asRun) rowMonitor() {
	if a.node == nil || a.tampered || !a.props["C02"] && !a.props["C13"] {
		return
	}
	rows, err := a.node.rows()
	if err != nil {
		return
	}
	seen := map[uint64]bool{}
	for _, row := range rows {
		if seen[row.Height] {
			a.violate(a.r.Prop+":two-rows-for-one-height", fmt.Sprintf("certificate_info holds two rows for height %d: %s", row.Height, rowsString(rows)))
		}
		seen[row.Height] = true
		a.m.mu.Lock()
		mc := a.m.byID[row.CertificateID]
		a.m.mu.Unlock()
		if mc == nil {
			a.violate(a.r.Prop+":row-for-unknown-certificate", fmt.Sprintf("row %s names a certificate the Agglayer never received", rowsString([]*aggsendertypes.CertificateHeader{row})))
			continue
		}
		if row.CertSource == aggsendertypes.CertificateSourceLocal &&
			(mc.Cert.Height != row.Height || mc.From != row.FromBlock || !mc.endsAt(row.ToBlock) || mc.Cert.NewLocalExitRoot != row.NewLocalExitRoot ||
				row.PreviousLocalExitRoot == nil || *row.PreviousLocalExitRoot != mc.Cert.PrevLocalExitRoot) {
			a.violate(a.r.Prop+":row-differs-from-what-was-sent", fmt.Sprintf("row %s differs from the certificate that was sent (height %d, blocks [%d,%d])", rowsString([]*aggsendertypes.CertificateHeader{row}), mc.Cert.Height, mc.From, mc.To))
		}
	}
}

// conservation: the settled certificates, in height order, cover [1 .. lastSettled.to] without
// gap or overlap and contain every bridge / claim of those blocks exactly once, in chain order
func (a *asRun) conservation(final bool) {
	if !a.props["C02"] {
		return
	}
	a.m.mu.Lock()
	var settled []*mCert
	for _, c := range a.m.certs {
		if c.Status == agglayertypes.Settled {
			settled = append(settled, c)
		}
	}
	a.m.mu.Unlock()
	if len(settled) == a.nSettled && !final {
		return
	}
	a.nSettled = len(settled)
	next := uint64(1)
	var exits, imported int
	for i, c := range settled {
		if c.Cert.Height != uint64(i) {
			a.violate("C02:settled-heights-not-consecutive", fmt.Sprintf("settled certificate #%d has height %d", i, c.Cert.Height))
			return
		}
		if c.From != next && !(i > 0 && c.From > 0 && settled[i-1].endsAt(c.From-1)) {
			a.violate("C02:settled-ranges-gap-or-overlap", fmt.Sprintf("settled certificate of height %d covers blocks [%d,%d], expected to start at %d", c.Cert.Height, c.From, c.To, next))
			return
		}
		next = c.To + 1
		exits += len(c.Cert.BridgeExits)
		imported += len(c.Cert.ImportedBridgeExits)
	}
	if len(settled) > 0 {
		wb, wc := a.w.eventsIn(1, next-1)
		if exits != len(wb) || imported != len(wc) {
			a.violate("C02:settled-events-not-exactly-once", fmt.Sprintf("settled certificates carry %d exits / %d imported exits, blocks [1,%d] hold %d bridges / %d claims", exits, imported, next-1, len(wb), len(wc)))
			return
		}
		// order + identity of exits
		k := 0
		for _, c := range settled {
			for _, be := range c.Cert.BridgeExits {
				if refExitHash(be) != leafOfBridge(wb[k].Bridge) {
					a.violate("C02:settled-exits-out-of-order", fmt.Sprintf("settled exit #%d is not deposit #%d", k, wb[k].Bridge.DepositCount))
					return
				}
				k++
			}
		}
		a.cov[fmt.Sprintf("settled=%d", min(len(settled), 4))] = true
	}
}

func (a *asRun) finish() {
	a.conservation(true)
	for k := range a.cov {
		a.r.Cover(k)
	}
	a.r.Add("certificates_received_by_model_agglayer", len(a.m.certs))
	a.r.Add("checks_failed_for_other_properties", a.other)
	a.r.Add("process_deaths_injected", a.crashes)
	a.r.Add("restarts", a.restarts)
}
