package checks

import (
	"context"
	"crypto/sha256"
	"database/sql"
	"fmt"
	"math/rand"
	"os"
	"path/filepath"
	"sort"
	"strings"
	"sync"
	"sync/atomic"

	"github.com/agglayer/aggkit/bridgesync"
	aggkitdb "github.com/agglayer/aggkit/db"
	"github.com/agglayer/aggkit/l1infotreesync"
	"github.com/agglayer/aggkit/lastgersync"
	aggsync "github.com/agglayer/aggkit/sync"
	"github.com/ethereum/go-ethereum/common"
	"verifharness/faultdb"
	"verifharness/world"
)

// store is a uniform handle on one of the three SQLite-backed stores, built through the
// verif-tag facades around the real processors.
type store struct {
	Kind    string
	Path    string
	Facade  any
	DB      *sql.DB
	process func(ctx context.Context, b aggsync.Block) error
	reorg   func(ctx context.Context, n uint64) error
	Fault   *faultdb.Controller // non-nil when opened through the fault-injecting driver
	Proc    any                 // the real processor (usable behind a real sync.EVMDriver)
}

func (s *store) Process(b aggsync.Block) error {
	return s.process(context.Background(), cloneBlock(s.Kind, b))
}
func (s *store) ProcessCtx(ctx context.Context, b aggsync.Block) error {
	return s.process(ctx, cloneBlock(s.Kind, b))
}
func (s *store) Reorg(n uint64) error { return s.reorg(context.Background(), n) }
func (s *store) Close()               { _ = s.DB.Close() }

func cloneBlock(kind string, b aggsync.Block) aggsync.Block {
	switch kind {
	case "bridge":
		return world.CloneBridgeBlock(b)
	case "l1info":
		return world.CloneL1Block(b)
	default:
		return world.CloneGERBlock(b)
	}
}

// realOpens counts stores opened through the repository's own constructors in this process. Each
// such open leaks one database handle inside db.RunMigrations (3 file descriptors in WAL mode; the
// process limit is 20000), so after realOpenBudget of them openStore switches to the template /
// WithDB path, which runs the same code except for the constructor and the migration call.
var realOpens atomic.Int64

const realOpenBudget = 2500

func openStore(kind, path string) (*store, error) {
	if realOpens.Add(1) > realOpenBudget {
		return openStoreFast(kind, path, 1)
	}
	return openStoreReal(kind, path)
}

func openStoreReal(kind, path string) (*store, error) {
	switch kind {
	case "bridge":
		s, err := bridgesync.VerifNewBridgeSync(path, "verif", 1)
		if err != nil {
			return nil, err
		}
		return &store{Kind: kind, Path: path, Facade: s, DB: s.VerifDB(), process: s.VerifProcessBlock, reorg: s.VerifReorg}, nil
	case "l1info":
		s, err := l1infotreesync.VerifNew(path)
		if err != nil {
			return nil, err
		}
		return &store{Kind: kind, Path: path, Facade: s, DB: s.VerifDB(), process: s.VerifProcessBlock, reorg: s.VerifReorg}, nil
	case "ger":
		s, err := lastgersync.VerifNew(path)
		if err != nil {
			return nil, err
		}
		return &store{Kind: kind, Path: path, Facade: s, DB: s.VerifDB(), process: s.VerifProcessBlock, reorg: s.VerifReorg}, nil
	}
	return nil, fmt.Errorf("unknown store kind %s", kind)
}

// ---- fast store creation from a migrated template ------------------------------------------------
// The repo's RunMigrations(dbPath) opens a database handle of its own and never closes it (harmless
// for a node, which runs it once per store). Scenario engines that build tens of thousands of worlds
// per process would run out of file descriptors, so they create stores by copying a migrated template
// file and opening it through the WithDB constructors, which skip RunMigrations on a migrated file.

var (
	tmplMu    sync.Mutex
	tmplFiles = map[string][]byte{}
)

func templateBytes(kind string) ([]byte, error) {
	tmplMu.Lock()
	defer tmplMu.Unlock()
	if b, ok := tmplFiles[kind]; ok {
		return b, nil
	}
	path := filepath.Join(scratchDir("tmpl"), kind+".sqlite")
	s, err := openStoreReal(kind, path) // the template itself is always built by the real constructor
	if err != nil {
		return nil, err
	}
	if _, err := s.DB.Exec(`PRAGMA wal_checkpoint(TRUNCATE)`); err != nil {
		return nil, err
	}
	s.Close()
	b, err := os.ReadFile(path)
	if err != nil {
		return nil, err
	}
	tmplFiles[kind] = b
	return b, nil
}

// openStoreFast creates (from the template) or reopens the store at path without leaking a handle
func openStoreFast(kind, path string, originNetwork uint32) (*store, error) {
	if _, err := os.Stat(path); err != nil {
		b, err := templateBytes(kind)
		if err != nil {
			return nil, err
		}
		if err := os.WriteFile(path, b, 0o600); err != nil {
			return nil, err
		}
	}
	dbh, err := aggkitdb.NewSQLiteDB(path)
	if err != nil {
		return nil, err
	}
	switch kind {
	case "bridge":
		s, err := bridgesync.VerifNewBridgeSyncWithDB(path, "verif", originNetwork, dbh)
		if err != nil {
			return nil, err
		}
		return &store{Kind: kind, Path: path, Facade: s, DB: dbh, process: s.VerifProcessBlock, reorg: s.VerifReorg, Proc: s.VerifProcessor()}, nil
	case "l1info":
		s, err := l1infotreesync.VerifNewWithDB(path, dbh)
		if err != nil {
			return nil, err
		}
		return &store{Kind: kind, Path: path, Facade: s, DB: dbh, process: s.VerifProcessBlock, reorg: s.VerifReorg, Proc: s.VerifProcessor()}, nil
	case "ger":
		s, err := lastgersync.VerifNewWithDB(path, dbh)
		if err != nil {
			return nil, err
		}
		return &store{Kind: kind, Path: path, Facade: s, DB: dbh, process: s.VerifProcessBlock, reorg: s.VerifReorg, Proc: s.VerifProcessor()}, nil
	}
	return nil, fmt.Errorf("unknown store kind %s", kind)
}

// openFaultStore opens the store on a database handle that goes through the fault driver
func openFaultStore(kind, path string) (*store, error) {
	dbh, ctl, err := faultdb.Open(path)
	if err != nil {
		return nil, err
	}
	dbh.SetMaxOpenConns(4)
	switch kind {
	case "bridge":
		s, err := bridgesync.VerifNewBridgeSyncWithDB(path, "verif", 1, dbh)
		if err != nil {
			return nil, err
		}
		return &store{Kind: kind, Path: path, Facade: s, DB: dbh, process: s.VerifProcessBlock, reorg: s.VerifReorg, Fault: ctl, Proc: s.VerifProcessor()}, nil
	case "l1info":
		s, err := l1infotreesync.VerifNewWithDB(path, dbh)
		if err != nil {
			return nil, err
		}
		return &store{Kind: kind, Path: path, Facade: s, DB: dbh, process: s.VerifProcessBlock, reorg: s.VerifReorg, Fault: ctl, Proc: s.VerifProcessor()}, nil
	case "ger":
		s, err := lastgersync.VerifNewWithDB(path, dbh)
		if err != nil {
			return nil, err
		}
		return &store{Kind: kind, Path: path, Facade: s, DB: dbh, process: s.VerifProcessBlock, reorg: s.VerifReorg, Fault: ctl, Proc: s.VerifProcessor()}, nil
	}
	return nil, fmt.Errorf("unknown store kind %s", kind)
}

func newFaultStore(kind, tag string) (*store, error) {
	return openFaultStore(kind, filepath.Join(scratchDir(tag), kind+".sqlite"))
}

func newStore(kind, tag string) (*store, error) {
	return openStore(kind, filepath.Join(scratchDir(tag), kind+".sqlite"))
}

// reopen closes the store object and opens a new one on the same file (= node restart)
func (s *store) reopen() (*store, error) {
	s.Close()
	return openStore(s.Kind, s.Path)
}

// excluded methods of the facades (name -> reason), kept in the evidence
var facadeExclude = map[string]string{
	"Start":                   "lifecycle, needs downloader/driver",
	"OriginNetwork":           "configuration, no error result",
	"BlockFinality":           "configuration, no error result",
	"GetLastReorgEvent":       "reads the reorg detector's audit log, not the store",
	"GetContractDepositCount": "contract call through an eth client the facade does not have",
}

// history is a generated block sequence for one store kind, with continuation support
type history struct {
	kind   string
	g      *rand.Rand
	blocks []aggsync.Block // everything currently surviving, in order
	l1     *world.L1Gen
	legacy []common.Address
	salt   uint64
	all    []aggsync.Block // every block ever generated (incl. dropped) – for argument pools
	gerIdx uint32
	dups   []*bridgesync.Bridge
	dupPct int // bridge: percentage of bridges that repeat the content (= leaf hash) of a recent one (default 20)
}

func newHistory(kind string, g *rand.Rand) *history {
	h := &history{kind: kind, g: g, salt: 1}
	for i := 0; i < 3; i++ {
		h.legacy = append(h.legacy, world.RandAddr(g))
	}
	if kind == "l1info" {
		h.l1 = world.NewL1Gen(g, world.L1Opts{StartBlock: uint64(1 + g.Intn(5)), MaxEventsBlock: 4, EmptyBlockPct: 20, GapPct: 25, Salt: h.salt, V2: true, Init: g.Intn(2) == 0})
	}
	return h
}

func (h *history) dupPctOr(d int) int {
	if h.dupPct > 0 {
		return h.dupPct
	}
	return d
}

func (h *history) lastNum() uint64 {
	if len(h.blocks) == 0 {
		return 0
	}
	return h.blocks[len(h.blocks)-1].Num
}

// extend generates n more blocks on the current fork
func (h *history) extend(n int) []aggsync.Block {
	var out []aggsync.Block
	switch h.kind {
	case "bridge":
		dc := uint32(len(world.BridgesOf(h.blocks)))
		out = world.GenBridgeHistory(h.g, world.BridgeOpts{StartBlock: h.lastNum() + 1 + uint64(h.g.Intn(2)), StartDeposit: dc, Blocks: n,
			MaxEventsBlock: 4, EmptyBlockPct: 15, GapPct: 25, Claims: true, Tokens: true, Salt: h.salt, LegacyPool: h.legacy, DupPct: h.dupPctOr(20), DupPool: &h.dups})
	case "l1info":
		for i := 0; i < n; i++ {
			out = append(out, h.l1.Next())
		}
	case "ger":
		out = world.GenGERHistory(h.g, world.GEROpts{StartBlock: h.lastNum() + 1 + uint64(h.g.Intn(2)), Blocks: n, EmptyBlockPct: 20, GapPct: 25, Salt: h.salt, RemovePct: 20}, h.gerIdx)
		h.gerIdx += uint32(3 * n)
	}
	h.blocks = append(h.blocks, out...)
	h.all = append(h.all, out...)
	return out
}

// truncate drops every block >= b (a reorg) and moves to a new fork salt
func (h *history) truncate(b uint64) (dropped []aggsync.Block) {
	k := len(h.blocks)
	for k > 0 && h.blocks[k-1].Num >= b {
		k--
	}
	dropped = append(dropped, h.blocks[k:]...)
	h.blocks = h.blocks[:k]
	h.salt++
	if h.kind == "l1info" {
		next := b
		if ln := h.lastNum(); next <= ln {
			next = ln + 1
		}
		h.l1.ResetTo(h.blocks, next, h.salt)
	}
	return dropped
}

// dbFingerprint renders the complete content of every user table (cheap exact state identity)
func dbFingerprint(dbh *sql.DB, skipTables ...string) (map[string]string, error) {
	rows, err := dbh.Query(`SELECT name FROM sqlite_master WHERE type='table' AND name NOT LIKE 'sqlite_%' ORDER BY name`)
	if err != nil {
		return nil, err
	}
	var tables []string
	for rows.Next() {
		var n string
		if err := rows.Scan(&n); err != nil {
			return nil, err
		}
		tables = append(tables, n)
	}
	rows.Close()
	out := map[string]string{}
	for _, t := range tables {
		skip := t == "gorp_migrations" || strings.HasPrefix(t, "verif_")
		for _, s := range skipTables {
			if s == t {
				skip = true
			}
		}
		if skip {
			continue
		}
		r, err := dbh.Query("SELECT * FROM " + t)
		if err != nil {
			return nil, err
		}
		cols, _ := r.Columns()
		var lines []string
		for r.Next() {
			vals := make([]any, len(cols))
			ptrs := make([]any, len(cols))
			for i := range vals {
				ptrs[i] = &vals[i]
			}
			if err := r.Scan(ptrs...); err != nil {
				r.Close()
				return nil, err
			}
			lines = append(lines, fmt.Sprintf("%v", vals))
		}
		r.Close()
		sort.Strings(lines)
		sum := sha256.Sum256([]byte(strings.Join(lines, "\n")))
		out[t] = fmt.Sprintf("%d:%x", len(lines), sum[:8])
	}
	return out, nil
}

func fpDiff(a, b map[string]string) []string {
	var out []string
	for k, v := range a {
		if b[k] != v {
			out = append(out, fmt.Sprintf("%s: %s vs %s", k, v, b[k]))
		}
	}
	for k, v := range b {
		if _, ok := a[k]; !ok {
			out = append(out, fmt.Sprintf("%s: (missing) vs %s", k, v))
		}
	}
	sort.Strings(out)
	return out
}

// blockSummary renders blocks compactly for samples / replay files
func blockSummary(kind string, blocks []aggsync.Block) []string {
	var out []string
	for _, b := range blocks {
		var ev []string
		for _, e := range b.Events {
			switch kind {
			case "bridge":
				x := e.(bridgesync.Event)
				switch {
				case x.Bridge != nil:
					ev = append(ev, fmt.Sprintf("bridge#%d", x.Bridge.DepositCount))
				case x.Claim != nil:
					ev = append(ev, "claim")
				case x.TokenMapping != nil:
					ev = append(ev, "tokenmap")
				case x.LegacyTokenMigration != nil:
					ev = append(ev, "migrate:"+x.LegacyTokenMigration.LegacyTokenAddress.Hex()[:6])
				case x.RemoveLegacyToken != nil:
					ev = append(ev, "rmlegacy:"+x.RemoveLegacyToken.LegacyTokenAddress.Hex()[:6])
				}
			case "l1info":
				x := e.(l1infotreesync.Event)
				switch {
				case x.UpdateL1InfoTree != nil:
					ev = append(ev, "info")
				case x.UpdateL1InfoTreeV2 != nil:
					ev = append(ev, fmt.Sprintf("v2(n=%d)", x.UpdateL1InfoTreeV2.LeafCount))
				case x.VerifyBatches != nil:
					z := ""
					if x.VerifyBatches.ExitRoot == (common.Hash{}) {
						z = ":zero"
					}
					ev = append(ev, fmt.Sprintf("verify(%d%s)", x.VerifyBatches.RollupID, z))
				case x.InitL1InfoRootMap != nil:
					ev = append(ev, "init")
				}
			case "ger":
				x := e.(*lastgersync.Event)
				switch {
				case x.GERInfo != nil:
					ev = append(ev, fmt.Sprintf("gerinfo(%d)", x.GERInfo.L1InfoTreeIndex))
				case x.GEREvent != nil && x.GEREvent.IsRemove:
					ev = append(ev, "remove:"+x.GEREvent.GlobalExitRoot.Hex()[:6])
				case x.GEREvent != nil:
					ev = append(ev, fmt.Sprintf("insert(%d):%s", x.GEREvent.L1InfoTreeIndex, x.GEREvent.GlobalExitRoot.Hex()[:6]))
				}
			}
		}
		out = append(out, fmt.Sprintf("%d[%s]", b.Num, strings.Join(ev, " ")))
	}
	return out
}
