package checks

import (
	"context"
	"fmt"
	"math/rand"
	"path/filepath"
	"runtime"
	"strings"
	"sync"
	"sync/atomic"
	"testing"
	"time"

	cfgtypes "github.com/agglayer/aggkit/config/types"
	"github.com/agglayer/aggkit/l1infotreesync"
	"github.com/agglayer/aggkit/reorgdetector"
	aggsync "github.com/agglayer/aggkit/sync"
	aggkittypes "github.com/agglayer/aggkit/types"
	"github.com/ethereum/go-ethereum/common"
	"verifharness/fakes"
	"verifharness/mon"
)

// C06 — reorgs of processed blocks are detected; the node converges to the canonical chain.

// l1Node is one incarnation of (real reorg detector + real L1 info tree syncer) on a directory
type l1Node struct {
	cancel  context.CancelFunc
	client  *fakes.ChainClient
	rd      *reorgdetector.ReorgDetector
	syncer  *l1infotreesync.L1InfoTreeSync
	done    chan struct{}
	done2   chan struct{}
}

func newDetector(client aggkittypes.BaseEthereumClienter, dir string) (*reorgdetector.ReorgDetector, error) {
	return reorgdetector.New(client, reorgdetector.Config{
		DBPath:              filepath.Join(dir, "rd.sqlite"),
		CheckReorgsInterval: cfgtypes.NewDuration(time.Millisecond),
		FinalizedBlock:      aggkittypes.FinalizedBlock,
	}, reorgdetector.L1)
}

// startL1Node starts detector and syncer; startFirst=true is the order cmd/run.go normally achieves
func startL1Node(ch *fakes.Chain, dir string, chunk uint64, startFirst bool, second *memProc) (*l1Node, error) {
	ctx, cancel := context.WithCancel(context.Background())
	cl := ch.Client()
	rd, err := newDetector(cl, dir)
	if err != nil {
		cancel()
		return nil, err
	}
	n := &l1Node{cancel: cancel, client: cl, rd: rd, done: make(chan struct{})}
	if startFirst {
		if err := rd.Start(ctx); err != nil {
			cancel()
			return nil, err
		}
	}
	s, err := newL1Syncer(ctx, filepath.Join(dir, "l1.sqlite"), rd, cl, chunk, aggkittypes.LatestBlock, 0)
	if err != nil {
		cancel()
		return nil, err
	}
	if !startFirst {
		if err := rd.Start(ctx); err != nil {
			cancel()
			return nil, err
		}
	}
	n.syncer = s
	go func() { s.Start(ctx); close(n.done) }()
	if second != nil {
		// a second syncer (recording store = its persistent state) sharing the same detector,
		// like bridgesync L1 shares the L1 detector with l1infotreesync
		rh := &aggsync.RetryHandler{RetryAfterErrorPeriod: 200 * time.Microsecond, MaxRetryAttemptsAfterError: -1}
		d, err := aggsync.NewEVMDownloader("second", cl, chunk+1, aggkittypes.LatestBlock, 300*time.Microsecond,
			watchedAppender(), []common.Address{watchedAddr}, rh, aggkittypes.FinalizedBlock)
		if err != nil {
			cancel()
			return nil, err
		}
		drv, err := aggsync.NewEVMDriver(&trackRecorder{ReorgDetector: rd, p: second}, second, d, "secondSyncer", 100, rh, false)
		if err != nil {
			cancel()
			return nil, err
		}
		n.done2 = make(chan struct{})
		go func() { drv.Sync(ctx); close(n.done2) }()
	}
	return n, nil
}

// stop abandons the incarnation: context cancelled, every later RPC of it rejected, the syncer
// goroutine drained (a detector goroutine blocked in notifySubscriber is equivalent to a process
// killed at that point), database handles closed.
func (n *l1Node) stop() {
	n.cancel()
	n.client.Kill()
	select {
	case <-n.done:
	case <-time.After(20 * time.Second):
	}
	if n.done2 != nil {
		select {
		case <-n.done2:
		case <-time.After(20 * time.Second):
		}
	}
	_ = n.syncer.VerifDB().Close()
	_ = n.rd.VerifDB().Close()
}

// waitConverged re-evaluates the deciding clause (store == reference of the final canonical
// chain) until it holds or the bound expires; returns the last difference
func waitConverged(s *l1infotreesync.L1InfoTreeSync, lg *l1ChainGen, ch *fakes.Chain, bound time.Duration) string {
	rf := lg.refOf(ch.Canonical())
	deadline := time.Now().Add(bound)
	diff := ""
	for {
		if diff = l1StoreMatches(s, rf); diff == "" {
			// the last processed block must be on the canonical chain as well
			num, hash, err := s.GetProcessedBlockUntil(context.Background(), 1<<62)
			if err == nil {
				canon := ch.Canonical()
				if num < uint64(len(canon)) && (hash == canon[num].Hash() || hash == (common.Hash{})) {
					return ""
				}
				diff = fmt.Sprintf("last processed block %d (%s) is not on the canonical chain", num, hash.Hex()[:10])
			} else {
				diff = "GetProcessedBlockUntil: " + err.Error()
			}
		}
		if time.Now().After(deadline) {
			return diff
		}
		time.Sleep(3 * time.Millisecond)
	}
}

type c06Cfg struct {
	Mode       string `json:"mode"`
	Target     int    `json:"target_blocks"`
	Chunk      uint64 `json:"chunk"`
	Lag        int    `json:"finality_lag"`
	Forks      int    `json:"forks"`
	MaxDepth   int    `json:"max_fork_depth"`
	Restarts   int    `json:"restarts"`
	CrashAt    int64  `json:"crash_at_rpc_call"`
	ForkDown   bool   `json:"fork_while_down"`
	StartFirst bool   `json:"detector_started_before_subscribe"`
	TwoSyncers bool   `json:"two_syncers_share_the_detector"`
}

func c06Free(r *mon.Run, caseID string, g *rand.Rand, cfg c06Cfg) {
	trace := []string{}
	scen := map[string]any{"config": cfg, "trace": &trace}
	guard(r, caseID, scen, func() {
		ch := fakes.NewChain(1)
		lg := newL1ChainGen(g, 45, true)
		var second *memProc
		if cfg.TwoSyncers {
			lg.generic = true
			second = &memProc{failPlan: map[uint64]int{}}
		}
		var hmu sync.Mutex
		growing := true
		forksLeft := cfg.Forks
		forkClasses := map[string]bool{}
		ch.Hook = func(c *fakes.Chain, m string, a any) error {
			hmu.Lock()
			defer hmu.Unlock()
			if !growing {
				return nil
			}
			if g.Intn(6) == 0 {
				lg.adopt(c.MineFn(g.Intn(3), lg.gen))
			}
			if g.Intn(5) == 0 {
				if h := c.Latest(); h > uint64(cfg.Lag) {
					c.SetFinalized(h - uint64(cfg.Lag))
				}
			}
			if forksLeft > 0 && g.Intn(25) == 0 {
				head, fin := c.Latest(), c.Finalized()
				if head > fin+1 {
					depth := 1 + g.Intn(min(cfg.MaxDepth, int(head-fin)))
					at := head - uint64(depth) + 1
					nb := c.Fork(at, depth+g.Intn(3), lg.gen)
					if nb != nil {
						lg.adopt(nb)
						forksLeft--
						cls := "above-served"
						if at <= c.MaxServed.Load() {
							cls = "replaces-served"
						}
						forkClasses[fmt.Sprintf("%s/depth=%d", cls, min(depth, 6))] = true
						trace = append(trace, fmt.Sprintf("fork at %d depth %d (%s) on %s call", at, depth, cls, m))
					}
				}
			}
			if int(c.Latest()) >= cfg.Target && forksLeft == 0 {
				growing = false
			}
			if int(c.Latest()) >= cfg.Target*3 {
				growing = false
			}
			return nil
		}
		lg.adopt(ch.MineFn(4, lg.gen))
		dir := scratchDir("c06")
		node, err := startL1Node(ch, dir, cfg.Chunk, cfg.StartFirst, second)
		if err != nil {
			r.Inconclusive("cannot start the node: " + err.Error())
			return
		}
		restartsLeft := cfg.Restarts
		crashAt := cfg.CrashAt
		deadline := time.Now().Add(90 * time.Second)
		for time.Now().Before(deadline) {
			hmu.Lock()
			gr := growing
			hmu.Unlock()
			if restartsLeft > 0 && ch.Calls() >= crashAt {
				// stop the node here (crash point = this RPC call index)
				node.stop()
				trace = append(trace, fmt.Sprintf("node stopped at RPC call %d (head %d)", ch.Calls(), ch.Latest()))
				if cfg.ForkDown {
					hmu.Lock()
					head, fin := ch.Latest(), ch.Finalized()
					if head > fin+1 {
						depth := 1 + g.Intn(min(cfg.MaxDepth, int(head-fin)))
						at := head - uint64(depth) + 1
						if nb := ch.Fork(at, depth+1+g.Intn(3), lg.gen); nb != nil {
							lg.adopt(nb)
							trace = append(trace, fmt.Sprintf("fork at %d depth %d while the node is down", at, depth))
							forkClasses["while-down"] = true
						}
					}
					hmu.Unlock()
				}
				restartsLeft--
				crashAt = ch.Calls() + 20 + int64(g.Intn(300))
				if node, err = startL1Node(ch, dir, cfg.Chunk, cfg.StartFirst, second); err != nil {
					r.Violation("C06:cannot-restart", caseID, err.Error(), scen)
					return
				}
				continue
			}
			if !gr && restartsLeft == 0 {
				break
			}
			if !gr && restartsLeft > 0 {
				crashAt = 0 // the chain stopped growing: restart now
				continue
			}
			time.Sleep(500 * time.Microsecond)
		}
		hmu.Lock()
		growing = false
		// the final chain is at least as long as anything the node can have processed, and a few
		// blocks beyond (the heaviest chain wins)
		lg.adopt(ch.MineFn(2+g.Intn(3), lg.gen))
		if h := ch.Latest(); h > uint64(cfg.Lag) {
			ch.SetFinalized(h - uint64(cfg.Lag))
		}
		hmu.Unlock()
		diff := waitConverged(node.syncer, lg, ch, 40*time.Second)
		if diff == "" && second != nil {
			end := time.Now().Add(40 * time.Second)
			for {
				delivered, _ := second.snapshot()
				sig, what := c05Judge(ch.Canonical(), delivered, ch.Latest(), true)
				if sig == "" {
					break
				}
				if time.Now().After(end) {
					_, calls := second.snapshot()
					diff = "second syncer sharing the detector: " + what + "; calls " + summarizeCalls(calls, 40)
					scen["second_store_calls"] = summarizeCalls(calls, 600)
					var forks []string
					for _, e := range ch.Events() {
						if strings.HasPrefix(e, "fork") || strings.HasPrefix(e, "mine") || strings.HasPrefix(e, "finalize") {
							forks = append(forks, e)
						}
					}
					if len(forks) > 300 {
						forks = forks[:300]
					}
					scen["chain_mine_and_fork_events"] = forks
					break
				}
				time.Sleep(3 * time.Millisecond)
			}
		}
		if diff != "" {
			// where the node's goroutines are: a stack dump of everything that has been blocked for a
			// minute or more in aggkit code (taken before the node is stopped)
			time.Sleep(65 * time.Second) // the runtime prints waiting times from one minute on
			scen["goroutines_blocked_in_aggkit"] = blockedAggkitGoroutines()
			if t := errorLogTail(40, "processing reorg", "error processing events", "error adding block"); t != nil {
				scen["node_error_log_tail"] = t
			}
		}
		node.stop()
		ev := ch.Events()
		if len(ev) > 150 {
			ev = ev[len(ev)-150:]
		}
		if diff != "" {
			scen["chain_events_tail"] = ev
			sig := "C06:store-does-not-converge-to-canonical-chain"
			if !cfg.StartFirst {
				sig += ":subscribe-before-detector-start"
			}
			r.Violation(sig, caseID, fmt.Sprintf("after the chain stopped changing (head %d, finalized %d) the store still differs: %s", ch.Latest(), ch.Finalized(), diff), scen)
			return
		}
		for c := range forkClasses {
			r.Cover("fork/" + c)
		}
		r.Eval(fmt.Sprintf("free/chunk=%d/lag=%d/forks=%d/restarts=%d/forkdown=%v/order=%v/two=%v", min(int(cfg.Chunk), 10), cfg.Lag, cfg.Forks, cfg.Restarts, cfg.ForkDown, cfg.StartFirst, cfg.TwoSyncers))
		if len(trace) > 0 {
			r.Sample(map[string]any{"config": cfg, "trace": trace, "final_head": ch.Latest(), "rpc_calls": ch.Calls()})
		}
	})
}

// c06Rewind: recording processor behind the real downloader + driver + detector. One fork from
// quiescence; judges rewind depth and "never rewound when nothing processed was replaced".
func c06Rewind(r *mon.Run, caseID string, g *rand.Rand, replaceProcessed bool) {
	trace := []string{}
	scen := map[string]any{"replace_processed": replaceProcessed, "trace": &trace}
	guard(r, caseID, scen, func() {
		ch := fakes.NewChain(1)
		n0 := 12 + g.Intn(30)
		lag := 4 + g.Intn(8)
		for i := 0; i < n0; i++ {
			k := 0
			if g.Intn(2) == 0 {
				k = 1 + g.Intn(2)
			}
			ch.Mine(genericLogs(g, k, true))
		}
		ch.SetFinalized(uint64(n0 - lag))
		dir := scratchDir("c06r")
		ctx, cancel := context.WithCancel(context.Background())
		cl := ch.Client()
		rd, err := newDetector(cl, dir)
		if err != nil {
			cancel()
			r.Inconclusive("cannot build detector: " + err.Error())
			return
		}
		_ = rd.Start(ctx)
		rh := &aggsync.RetryHandler{RetryAfterErrorPeriod: 200 * time.Microsecond, MaxRetryAttemptsAfterError: -1}
		chunk := uint64([]int{1, 3, 10, 100}[g.Intn(4)])
		d, err := aggsync.NewEVMDownloader("verif", cl, chunk, aggkittypes.LatestBlock, 300*time.Microsecond,
			watchedAppender(), []common.Address{watchedAddr}, rh, aggkittypes.FinalizedBlock)
		if err != nil {
			cancel()
			r.Inconclusive("cannot build downloader: " + err.Error())
			return
		}
		p := &memProc{failPlan: map[uint64]int{}}
		drv, err := aggsync.NewEVMDriver(rd, p, d, "verif", []int{0, 1, 1000}[g.Intn(3)], rh, false)
		if err != nil {
			cancel()
			r.Inconclusive("cannot build driver: " + err.Error())
			return
		}
		done := make(chan struct{})
		go func() { drv.Sync(ctx); close(done) }()
		stop := func() {
			cancel()
			cl.Kill()
			select {
			case <-done:
			case <-time.After(20 * time.Second):
			}
			_ = rd.VerifDB().Close()
		}
		waitAll := func(bound time.Duration) string {
			deadline := time.Now().Add(bound)
			for {
				delivered, _ := p.snapshot()
				sig, what := c05Judge(ch.Canonical(), delivered, ch.Latest(), true)
				if sig == "" {
					return ""
				}
				if time.Now().After(deadline) {
					return sig + ": " + what
				}
				time.Sleep(2 * time.Millisecond)
			}
		}
		if w := waitAll(30 * time.Second); w != "" {
			stop()
			r.Violation("C06:initial-sync-incomplete", caseID, w, scen)
			return
		}
		delivered, _ := p.snapshot()
		lastDelivered := uint64(0)
		if len(delivered) > 0 {
			lastDelivered = delivered[len(delivered)-1].Num
		}
		head, fin := ch.Latest(), ch.Finalized()
		var at uint64
		if replaceProcessed {
			// fork point at or below the last processed (non-finalized) block
			if lastDelivered <= fin {
				stop()
				r.Eval("")
				return
			}
			at = fin + 1 + uint64(g.Intn(int(lastDelivered-fin)))
			nb := ch.Fork(at, int(head-at)+1+g.Intn(4), func(num uint64, ph common.Hash, ts uint64) []fakes.LogSpec {
				k := 0
				if g.Intn(2) == 0 {
					k = 1 + g.Intn(2)
				}
				return genericLogs(g, k, true)
			})
			if nb == nil {
				stop()
				r.Eval("")
				return
			}
			trace = append(trace, fmt.Sprintf("fork at %d (last processed %d, finalized %d, head %d)", at, lastDelivered, fin, head))
		} else {
			var nb []*fakes.SimBlock
			at, nb = ch.ForkAboveServed(2+g.Intn(4), func(num uint64, ph common.Hash, ts uint64) []fakes.LogSpec {
				return genericLogs(g, g.Intn(2), true)
			})
			if nb == nil {
				// nothing unserved to fork: still a fork-free run
				at = 0
				ch.Mine(genericLogs(g, 1, true))
			}
			trace = append(trace, fmt.Sprintf("fork above everything served, at %d (max served %d)", at, ch.MaxServed.Load()))
		}
		for i := 0; i < 1+g.Intn(3); i++ {
			ch.Mine(genericLogs(g, g.Intn(2), true))
		}
		w := waitAll(40 * time.Second)
		// let the detector run a few more rounds before counting rewinds in the no-replace case
		if !replaceProcessed {
			time.Sleep(30 * time.Millisecond)
		}
		_, calls := p.snapshot()
		stop()
		trace = append(trace, "calls: "+summarizeCalls(calls, 80))
		var reorgs, keptAfter []uint64
		for _, c := range calls {
			if c.Op == "reorg" {
				reorgs = append(reorgs, c.Num)
				keptAfter = append(keptAfter, c.LastKept)
			}
		}
		if w != "" {
			r.Violation("C06:recording-store-does-not-converge", caseID, w, scen)
			return
		}
		if replaceProcessed {
			// the syncer only records blocks with events (and markers): it is rewound to at or
			// before the first replaced block iff nothing at or above that block stays recorded,
			// i.e. it resumes from a recorded block below the fork point
			ok := false
			for _, kept := range keptAfter {
				if kept < at {
					ok = true
				}
			}
			if !ok {
				r.Violation("C06:not-rewound-to-first-replaced-block", caseID,
					fmt.Sprintf("blocks >= %d were replaced (last processed %d), rewinds observed: %v leaving last recorded blocks %v (none below %d)", at, lastDelivered, reorgs, keptAfter, at), scen)
				return
			}
			r.Eval(fmt.Sprintf("rewind/replace/depth=%d/chunk=%d", min(int(lastDelivered-at), 6), min(int(chunk), 10)))
		} else {
			if len(reorgs) > 0 {
				r.Violation("C06:spurious-rewind", caseID, fmt.Sprintf("nothing the node processed was replaced, yet it was rewound to %v", reorgs), scen)
				return
			}
			r.Eval(fmt.Sprintf("rewind/none/forked=%v/chunk=%d", at != 0, min(int(chunk), 10)))
		}
	})
}

func TestC06(t *testing.T) {
	r := mon.Start("C06", "exploration")
	r.Rule("(1) free-running: real reorg detector (1 ms) + real L1 info tree syncer over the chain simulator; the schedule forks above the finalized block at PRNG RPC calls (depth 1..12, new fork content generated afresh, " +
		"1-4 successive forks), stops / restarts the node at PRNG RPC call indices (optionally forking while it is down); deciding clause: once the chain stops changing the store equals the reference of the final canonical chain; " +
		"(2) single fork from quiescence behind a recording store: a rewind at or before the first replaced processed block must be observed; (3) forks strictly above everything ever served to the node and fork-free runs: no rewind at all; " +
		"signature = (mode, chunk, lag, forks, restarts, fork class/depth)")
	r.Assume("finalized blocks are never reorged; the final chain is at least as long as any height the node processed",
		"convergence is bounded progress: the deciding comparison is re-evaluated for up to 40 s after the chain stopped changing",
		"the window between ReorgProcessed and the detector's removeTrackedBlockRange can only be widened by an in-body delay and is not driven")
	workers := max(runtime.NumCPU()/2, 2)
	nFree := r.N(80, 2500)
	parallel(nFree, workers, func(i int) {
		caseID := fmt.Sprintf("free/%d", i)
		if !r.Only(caseID) {
			return
		}
		g := rng(r, "free", i)
		cfg := c06Cfg{Mode: "free", Target: 40 + g.Intn(80), Chunk: uint64([]int{1, 3, 10, 100}[g.Intn(4)]), Lag: []int{3, 10, 40}[g.Intn(3)],
			Forks: 1 + g.Intn(4), MaxDepth: []int{2, 6, 12}[g.Intn(3)], StartFirst: true}
		cfg.TwoSyncers = g.Intn(2) == 0
		if g.Intn(2) == 0 {
			cfg.Restarts = 1 + g.Intn(2)
			cfg.CrashAt = int64(20 + g.Intn(400))
			cfg.ForkDown = g.Intn(2) == 0
		}
		c06Free(r, caseID, g, cfg)
	})
	nRew := r.N(60, 1200)
	parallel(nRew, workers, func(i int) {
		caseID := fmt.Sprintf("rewind/%d", i)
		if !r.Only(caseID) {
			return
		}
		c06Rewind(r, caseID, rng(r, "rewind", i), i%2 == 0)
	})
	// crash-point sweep: every RPC call index of a short scenario (thorough), sampled in quick
	nSweep := r.N(30, 900)
	parallel(nSweep, workers, func(i int) {
		caseID := fmt.Sprintf("crash/%d", i)
		if !r.Only(caseID) {
			return
		}
		g := rng(r, "crash", i%3) // 3 base scenarios, the crash point varies
		cfg := c06Cfg{Mode: "crash-sweep", Target: 30, Chunk: uint64([]int{3, 10}[i%2]), Lag: 6, Forks: 2, MaxDepth: 5, StartFirst: true,
			Restarts: 1, CrashAt: int64(5 + i/3), ForkDown: i%2 == 0, TwoSyncers: i%4 < 2}
		c06Free(r, caseID, g, cfg)
	})
	// two syncers share the detector, the node is stopped, a deep fork lands while it is down
	nShared := r.N(24, 400)
	parallel(nShared, workers, func(i int) {
		caseID := fmt.Sprintf("shared/%d", i)
		if !r.Only(caseID) {
			return
		}
		g := rng(r, "shared", i)
		cfg := c06Cfg{Mode: "shared-detector-restart", Target: 50 + g.Intn(40), Chunk: uint64([]int{1, 3, 10}[g.Intn(3)]), Lag: 40, Forks: g.Intn(2), MaxDepth: 12,
			StartFirst: true, TwoSyncers: true, Restarts: 1 + g.Intn(2), CrashAt: int64(60 + g.Intn(300)), ForkDown: true}
		c06Free(r, caseID, g, cfg)
	})
	// labelled schedule class: a syncer that subscribes before the detector's Start has run
	// (possible because cmd/run.go starts the detector in a goroutine) – DESIGN.md §6(7)
	nOrder := r.N(6, 40)
	parallel(nOrder, workers, func(i int) {
		caseID := fmt.Sprintf("order/%d", i)
		if !r.Only(caseID) {
			return
		}
		g := rng(r, "order", i)
		cfg := c06Cfg{Mode: "subscribe-first", Target: 30 + g.Intn(30), Chunk: 10, Lag: 5, Forks: 1 + i%2, MaxDepth: 4, StartFirst: false}
		if i%2 == 1 { // restart: tracked rows exist in the detector's database when the syncer subscribes first
			cfg.Restarts, cfg.CrashAt, cfg.ForkDown = 1, int64(40+g.Intn(200)), g.Intn(2) == 0
		}
		c06Free(r, caseID, g, cfg)
	})
	// windows inside the driver / detector hand-shake (see c06_handshake_test.go)
	nWin := r.N(25, 250)
	parallel(nWin, workers, func(i int) {
		caseID := fmt.Sprintf("window/%d", i)
		if !r.Only(caseID) {
			return
		}
		c06Window(r, caseID, rng(r, "window", i), []string{"crash-in-reorg", "crash-after-process", "retrack-window", "unprocessable-block", "same-hash-retrack"}[i%5])
	})
	nSlow := r.N(3, 16)
	parallel(nSlow, workers, func(i int) {
		caseID := fmt.Sprintf("window-slow/%d", i)
		if !r.Only(caseID) {
			return
		}
		c06Window(r, caseID, rng(r, "windowslow", i), "slow-store")
	})
	// labelled schedule class: the detector's Start runs in its own goroutine WHILE the syncer
	// subscribes (exactly what cmd/run.go does: `go reorgDetector.Start(ctx)` followed by the syncers'
	// constructors). The node must come up and converge on a static chain.
	nConc := r.N(160, 1200)
	var concStarted atomic.Int64
	parallel(nConc, workers, func(i int) {
		caseID := fmt.Sprintf("concurrent-start/%d", i)
		if !r.Only(caseID) {
			return
		}
		g := rng(r, "concstart", i)
		scen := map[string]any{"mode": "detector Start concurrent with the syncer's Subscribe (cmd/run.go order)"}
		guard(r, caseID, scen, func() {
			ch := fakes.NewChain(1)
			lg := newL1ChainGen(g, 60, true)
			lg.adopt(ch.MineFn(6+g.Intn(6), lg.gen))
			ch.SetFinalized(2)
			dir := scratchDir("c06conc")
			ctx, cancel := context.WithCancel(context.Background())
			defer cancel()
			cl := ch.Client()
			rd, err := newDetector(cl, dir)
			if err != nil {
				r.Inconclusive("detector: " + err.Error())
				return
			}
			if i%2 == 1 {
				// second start of the same node: tracked rows already exist in the detector's database
				sub, _ := rd.Subscribe("l1infotreesync")
				_ = sub
				_ = rd.AddBlockToTrack(ctx, "l1infotreesync", 3, ch.Canonical()[3].Hash())
				// ... and many rows of another (finalized, hence harmless) block, as a node has after
				// running for a while with a large non-finalized window: loading them takes Start a few ms
				rows := 3000 + g.Intn(20000)
				if tx, err := rd.VerifDB().Begin(); err == nil {
					h1 := ch.Canonical()[1].Hash().Hex()
					for k := 0; k < rows; k++ {
						_, _ = tx.Exec(`INSERT INTO tracked_block (subscriber_id, num, hash) VALUES ('bridgesync', 1, $1)`, h1)
					}
					_ = tx.Commit()
				}
				scen["tracked_rows_in_db"] = rows
				_ = rd.VerifDB().Close()
				if rd, err = newDetector(cl, dir); err != nil {
					r.Inconclusive("detector: " + err.Error())
					return
				}
			}
			type res struct {
				s   *l1infotreesync.L1InfoTreeSync
				err error
			}
			up := make(chan res, 1)
			started := make(chan error, 1)
			go func() { started <- rd.Start(ctx) }()
			go func() {
				s, err := newL1Syncer(ctx, filepath.Join(dir, "l1.sqlite"), rd, cl, 10, aggkittypes.LatestBlock, 0)
				up <- res{s, err}
			}()
			var node res
			select {
			case node = <-up:
			case <-time.After(20 * time.Second):
				r.Violation("C06:store-does-not-converge-to-canonical-chain:node-start-deadlocks:detector-start-concurrent-with-subscribe", caseID,
					"the detector's Start and the syncer's Subscribe ran concurrently (as in cmd/run.go) and 20 s later the syncer's constructor has not returned: the node never starts syncing", scen)
				return
			}
			if node.err != nil {
				r.Inconclusive("syncer: " + node.err.Error())
				return
			}
			select {
			case err := <-started:
				if err != nil {
					r.Inconclusive("detector start: " + err.Error())
					return
				}
			case <-time.After(20 * time.Second):
				r.Violation("C06:store-does-not-converge-to-canonical-chain:node-start-deadlocks:detector-start-concurrent-with-subscribe", caseID,
					"the detector's Start ran concurrently with the syncer's Subscribe and has not returned after 20 s", scen)
				return
			}
			done := make(chan struct{})
			go func() { node.s.Start(ctx); close(done) }()
			rf := lg.refOf(ch.Canonical())
			diff := ""
			for w := 0; w < 5000; w++ {
				if diff = l1StoreMatches(node.s, rf); diff == "" {
					break
				}
				time.Sleep(2 * time.Millisecond)
			}
			cancel()
			cl.Kill()
			select {
			case <-done:
			case <-time.After(20 * time.Second):
			}
			_ = node.s.VerifDB().Close()
			_ = rd.VerifDB().Close()
			if diff != "" {
				r.Violation("C06:store-does-not-converge-to-canonical-chain:after-concurrent-start", caseID, diff, scen)
				return
			}
			concStarted.Add(1)
			r.Eval(fmt.Sprintf("concurrent-start/tracked-rows-in-db=%v", i%2 == 1))
		})
	})
	r.Set("concurrent_starts_that_converged", int(concStarted.Load()))
	finish(t, r, r.N(25, 60), "free/*", "rewind/replace*", "rewind/none*", "fork/replaces-served*", "concurrent-start/*", "window/crash-in-reorg*", "window/crash-after-process*", "window/slow-store*", "window/retrack-window*", "window/unprocessable-block*", "window/same-hash-retrack*")
}

// blockedAggkitGoroutines returns the (de-duplicated) stacks of goroutines that have been waiting
// for at least a minute and have an aggkit frame on their stack
func blockedAggkitGoroutines() []string {
	buf := make([]byte, 8<<20)
	n := runtime.Stack(buf, true)
	seen := map[string]int{}
	var order []string
	for _, g := range strings.Split(string(buf[:n]), "\n\n") {
		lines := strings.Split(g, "\n")
		if len(lines) < 2 || !strings.Contains(g, "github.com/agglayer/aggkit/") {
			continue
		}
		// blocked for a minute or more, or anywhere inside the driver's block / reorg handling
		if !strings.Contains(lines[0], "minutes") && !strings.Contains(g, "EVMDriver).handle") {
			continue
		}
		var fr []string
		for _, l := range lines[1:] {
			if !strings.HasPrefix(l, "\t") && !strings.HasPrefix(l, "created by") {
				if i := strings.LastIndex(l, "("); i > 0 {
					l = l[:i]
				}
				fr = append(fr, l)
			}
		}
		if len(fr) > 12 {
			fr = fr[:12]
		}
		state := lines[0]
		if i := strings.Index(state, "["); i >= 0 {
			state = state[i:]
		}
		key := state + " " + strings.Join(fr, " < ")
		if seen[key] == 0 {
			order = append(order, key)
		}
		seen[key]++
	}
	var out []string
	for _, k := range order {
		out = append(out, fmt.Sprintf("%dx %s", seen[k], k))
		if len(out) >= 20 {
			break
		}
	}
	return out
}

// trackRecorder wraps the real detector for the second syncer and records its AddBlockToTrack
// calls into the recording store's call list (so a witness shows what was tracked when)
type trackRecorder struct {
	*reorgdetector.ReorgDetector
	p *memProc
}

func (t *trackRecorder) AddBlockToTrack(ctx context.Context, id string, num uint64, hash common.Hash) error {
	err := t.ReorgDetector.AddBlockToTrack(ctx, id, num, hash)
	t.p.mu.Lock()
	c := procCall{Op: "track", Num: num, Hash: hash}
	if err != nil {
		c.Err = err.Error()
	}
	t.p.calls = append(t.p.calls, c)
	t.p.mu.Unlock()
	return err
}
