package checks

import (
	"context"
	"fmt"
	"runtime"
	"strings"
	"sync/atomic"
	"testing"

	aggsync "github.com/agglayer/aggkit/sync"
	"verifharness/faultdb"
	"verifharness/mon"
)

// C07 — block processing is all-or-nothing under faults and crashes; retry is clean.
//
// Plane 1 (this file): statement faults. Store A runs on a database handle that goes through the
// fault-injecting driver (faultdb); a twin T processes the same history fault-free. For a block
// with n storage statements in its transaction (reads, writes and the commit), each statement j in
// turn is made to fail; after the failed call nothing of the block may be recorded (exact table
// content = before), then the same block is processed again and the store must hold exactly the
// twin's content, for the rest of the history too (every root, node and row).
// Plane 2: context cancellation at statement k of the block's transaction.
// Plane 3 (c07_driver_test.go): the real sync.EVMDriver must retry the failed block and never
// record a later block while it is missing.
// Plane 4 (c07_kill_test.go): process death / IO errors under strace.

func fpTables(d []string) string {
	var t []string
	for _, x := range d {
		t = append(t, strings.SplitN(x, ":", 2)[0])
	}
	return strings.Join(t, "+")
}

func TestC07(t *testing.T) {
	r := mon.Start("C07", "fault_enumeration")
	r.Rule("per store kind: PRNG histories; for each block the number n of storage statements of its transaction is learnt from a fault-free twin, then statement j = 1..n " +
		"(quick: first, last (= commit) and sampled ones; thorough: all) fails in turn, followed by a clean retry; context cancellation at statement k likewise; " +
		"signature = (kind, plane, kind of failing statement, position class of the failing statement, #leaves already added, leaf-index parity)")
	r.Assume("a storage fault makes the statement return an error without executing; a failing commit rolls the transaction back (like SQLite does)",
		"the fault driver wraps the same mattn/go-sqlite3 driver with the same DSN options as db.NewSQLiteDB")
	kinds := []string{"bridge", "l1info", "ger"}
	nHist := r.N(8, 60)
	nBlocks := r.N(10, 30)
	maxFaults := r.N(12, 1<<30)
	var faultPoints, cancelMid atomic.Int64
	type job struct {
		kind string
		i    int
	}
	var jobs []job
	for _, k := range kinds {
		for i := 0; i < nHist; i++ {
			jobs = append(jobs, job{k, i})
		}
	}
	parallel(len(jobs), runtime.NumCPU(), func(j int) {
		kind, i := jobs[j].kind, jobs[j].i
		caseID := fmt.Sprintf("stmt/%s/%d", kind, i)
		if !r.Only(caseID) {
			return
		}
		g := rng(r, "c07-"+kind, i)
		trace := []string{}
		sc := map[string]any{"kind": kind, "trace": &trace}
		guard(r, caseID, sc, func() {
			h := newHistory(kind, g)
			A, err := newFaultStore(kind, "c07A")
			if err != nil {
				r.Inconclusive("cannot open store: " + err.Error())
				return
			}
			defer A.Close()
			T, err := newFaultStore(kind, "c07T")
			if err != nil {
				r.Inconclusive("cannot open store: " + err.Error())
				return
			}
			defer T.Close()
			A.Fault.OnlyInTx(true)
			T.Fault.OnlyInTx(true)
			blocks := h.extend(nBlocks)
			for bi, b := range blocks {
				sum := blockSummary(kind, []aggsync.Block{b})[0]
				fpBefore, _ := dbFingerprint(A.DB)
				T.Fault.Arm(0, true)
				if err := T.Process(b); err != nil {
					r.Violation("C07:"+kind+":process-error", caseID, fmt.Sprintf("twin ProcessBlock(%s): %v", sum, err), sc)
					return
				}
				n, _, stmts := T.Fault.Disarm()
				fpAfter, _ := dbFingerprint(T.DB)
				// choose the fault points
				var points []int
				if n <= maxFaults {
					for k := 1; k <= n; k++ {
						points = append(points, k)
					}
				} else {
					seen := map[int]bool{1: true, n: true, n - 1: true, 2: true}
					for len(seen) < maxFaults {
						seen[1+g.Intn(n)] = true
					}
					for k := 1; k <= n; k++ {
						if seen[k] {
							points = append(points, k)
						}
					}
				}
				if len(b.Events) == 0 && g.Intn(3) != 0 {
					points = points[:min(len(points), 1)]
				}
				cancelPlane := g.Intn(4) == 0
				processed := false
				for _, k := range points {
					what := "?"
					if k-1 < len(stmts) {
						what = stmts[k-1]
					}
					var perr error
					fired := false
					if !cancelPlane {
						A.Fault.Arm(k, false)
						perr = A.Process(b)
						_, fired, _ = A.Fault.Disarm()
						faultPoints.Add(1)
					} else {
						ctx, cancel := context.WithCancel(context.Background())
						var cnt atomic.Int64
						A.Fault.Arm(0, false)
						A.Fault.SetDelay(func(kd, q string) {
							if cnt.Add(1) == int64(k) {
								cancel()
							}
						})
						perr = A.ProcessCtx(ctx, b)
						A.Fault.SetDelay(nil)
						A.Fault.Disarm()
						cancel()
						fired = perr != nil
						if fired {
							cancelMid.Add(1)
						}
					}
					plane := "stmt"
					if cancelPlane {
						plane = "cancel"
					}
					trace = append(trace, clip(fmt.Sprintf("  %s at %d/%d (%s) -> %v halted=%v", plane, k, n, what, perr, isHalted(A)), 220))
					fp, _ := dbFingerprint(A.DB)
					if perr == nil {
						// the fault did not surface: the block must then be completely recorded
						if d := fpDiff(fpAfter, fp); len(d) > 0 {
							sig := fmt.Sprintf("C07:%s:%s:fault-swallowed-state-differs:%s", kind, plane, fpTables(d))
							if !fired {
								sig = fmt.Sprintf("C07:%s:%s:state-differs-after-retry:%s", kind, plane, fpTables(d))
							}
							r.Violation(sig, caseID, fmt.Sprintf("block %s, fault at statement %d/%d (%s), fired=%v: ProcessBlock returned nil but the store differs from a fault-free run: %v", sum, k, n, what, fired, d), sc)
							return
						}
						processed = true
						trace = append(trace, fmt.Sprintf("block %s: %s at %d/%d (%s) did not surface, block recorded", sum, plane, k, n, what))
						break
					}
					if d := fpDiff(fpBefore, fp); len(d) > 0 {
						r.Violation(fmt.Sprintf("C07:%s:%s:partial-block-recorded:%s", kind, plane, fpTables(d)), caseID,
							fmt.Sprintf("block %s, fault at statement %d/%d (%s): ProcessBlock failed (%v) but the store changed: %v", sum, k, n, what, perr, d), sc)
						return
					}
					kindOf := strings.Fields(what)
					pc := "mid"
					if k == 1 {
						pc = "first"
					} else if k == n {
						pc = "commit"
					}
					leavesBefore := 0
					for _, s := range stmts[:min(k-1, len(stmts))] {
						if strings.Contains(s, "root") && strings.HasPrefix(s, "exec INSERT") {
							leavesBefore++
						}
					}
					r.Eval(fmt.Sprintf("%s/%s/%s/%s/leaves=%d/blk=%d", kind, plane, safe(kindOf, 0), pc, min(leavesBefore, 3), min(len(b.Events), 3)))
				}
				if !processed {
					if err := A.Process(b); err != nil {
						r.Violation(fmt.Sprintf("C07:%s:retry-fails", kind), caseID,
							fmt.Sprintf("block %s: after %d injected faults the same block cannot be processed any more: %v", sum, len(points), err), sc)
						return
					}
					fp, _ := dbFingerprint(A.DB)
					if d := fpDiff(fpAfter, fp); len(d) > 0 {
						r.Violation(fmt.Sprintf("C07:%s:state-differs-after-retry:%s", kind, fpTables(d)), caseID,
							fmt.Sprintf("block %s (#%d of the history): after failed attempts and a clean retry the store differs from a fault-free run in tables %v", sum, bi, d), sc)
						return
					}
				}
				trace = append(trace, fmt.Sprintf("block %s: %d statements, %d fault points ok", sum, n, len(points)))
			}
			// all queries (incl. every proof) agree with the twin at the end
			pools := poolsFor(kind, g, h.all, T, nil)
			calls, _ := buildCalls(A.Facade, facadeExclude, pools, g, 40)
			if d := diffAnswers(calls, askAll(A.Facade, calls), askAll(T.Facade, calls)); len(d) > 0 {
				m := strings.SplitN(d[0], "(", 2)[0]
				r.Violation(fmt.Sprintf("C07:%s:%s:query-differs-at-end", kind, m), caseID, fmt.Sprintf("%d queries differ from the fault-free twin; first: %s", len(d), d[0]), sc)
			}
			r.Sample(map[string]any{"kind": kind, "trace": trace})
		})
	})
	r.Set("statement_fault_points", int(faultPoints.Load()))
	r.Set("cancellations_mid_transaction", int(cancelMid.Load()))

	c07Driver(r)
	c07Readers(r)
	c07Kill(r)

	errKinds := map[string]any{}
	for k, n := range []string{"opaque error", "SQLITE_IOERR_WRITE", "SQLITE_FULL", "SQLITE_CONSTRAINT_TRIGGER", "SQLITE_BUSY", "SQLITE_CONSTRAINT_NOTNULL"} {
		errKinds[n] = faultdb.KindsInjected[k].Load()
	}
	r.Set("injected_error_kinds", errKinds)
	finish(t, r, r.N(40, 80), "bridge/stmt/*", "l1info/stmt/*", "ger/stmt/*", "bridge/cancel/*", "driver/*")
}

func safe(f []string, i int) string {
	if i < len(f) {
		return f[i]
	}
	return "?"
}
