package checks

import (
	"crypto/ecdsa"
	"fmt"
	"math/rand"
	"os"
	"runtime"
	"strings"
	"testing"

	"github.com/agglayer/aggkit/bridgesync"
	"github.com/ethereum/go-ethereum/common"
	"github.com/ethereum/go-ethereum/crypto"
	"verifharness/mon"
	"verifharness/world"
)

func addrOf(k *ecdsa.PrivateKey) common.Address { return crypto.PubkeyToAddress(k.PublicKey) }

func removeSQLite(p string) {
	for _, suf := range []string{"", "-wal", "-shm"} {
		_ = os.Remove(p + suf)
	}
}

func leafOfBridge(b *bridgesync.Bridge) common.Hash { return world.BridgeLeafOf(b) }

// c02Walk executes a step sequence; steps == nil => random walk of the given length
func c02Walk(r *mon.Run, caseID string, g *rand.Rand, cfg asNodeCfg, steps []int, length int, alphabet []int, drain bool, props ...string) {
	guard(r, caseID, map[string]any{"config": cfg, "steps": steps}, func() {
		a, err := newASRun(r, caseID, g, cfg, props...)
		if err != nil {
			r.Inconclusive("cannot build the aggsender world: " + err.Error())
			return
		}
		defer a.close()
		v0 := r.Violations()
		if steps != nil {
			for _, s := range steps {
				if a.dead {
					return
				}
				a.step(s)
			}
		} else {
			for i := 0; i < length && !a.dead; i++ {
				a.step(alphabet[g.Intn(len(alphabet))])
			}
		}
		if a.dead {
			return
		}
		lost := len(a.lostResp) > 0
		// (with a size limit the node can legitimately sit on an empty prefix in front of an
		// oversized block – see DESIGN.md, C02 limits – so progress is only judged without one)
		if drain && !lost && !a.refused && cfg.MaxCertSize == 0 && r.Violations() == v0 {
			// bounded progress: without further faults, a few rounds of (verdict, status tick,
			// epoch tick) must bring every event of the processed blocks into a settled certificate
			a.m.mu.Lock()
			a.m.failNext, a.m.crashAt = "", "" // no further faults
			a.m.mu.Unlock()
			for round := 0; round < 6; round++ {
				a.step(stSettle)
				a.step(stStatus)
				a.step(stEpoch)
			}
			a.step(stSettle)
			a.step(stStatus)
			if r.Violations() == v0 {
				a.m.mu.Lock()
				covered := uint64(0)
				if ls := a.m.lastSettled(); ls != nil {
					covered = ls.To
				}
				open := a.m.openCert() != nil
				a.m.mu.Unlock()
				wb, wc := a.w.eventsIn(covered+1, a.w.l2Next-1)
				if !open && len(wb)+len(wc) > 0 {
					a.violate("C02:progress:events-never-certified", fmt.Sprintf("after 6 fault-free rounds of verdict/status/epoch ticks, %d bridges and %d claims of blocks (%d,%d] are in no settled certificate and nothing is pending (last error: %s)",
						len(wb), len(wc), covered, a.w.l2Next-1, a.node.as.VerifLastError()))
				}
			}
		}
		a.finish()
		sig := fmt.Sprintf("walk/fep=%v/retry=%v/maxsize=%v/certs=%d/settled=%d/lost=%v", cfg.FEP, cfg.RetryAfterInError, cfg.MaxCertSize > 0, min(len(a.m.certs), 5), min(a.nSettled, 4), lost)
		if len(a.m.certs) == 0 {
			sig = ""
		}
		r.Eval(sig)
		if len(a.m.certs) > 1 {
			r.Sample(map[string]any{"config": cfg, "steps": strings.Join(tailStr(a.trace, 30), " "), "certificates": len(a.m.certs), "settled": a.nSettled})
		}
	})
}

// TestC02 — bridge exits settle exactly once through a gap-free certificate chain.
func TestC02(t *testing.T) {
	r := mon.Start("C02", "exploration")
	r.Rule("the real AggSender (PP mode: real storage, status checker, PPFlow + baseFlow, queries, local signer) over real L2 bridge / L1 info stores and a model Agglayer; " +
		"alphabet {L2 block with events, empty L2 block, epoch tick, status tick, Agglayer advances / fails / settles the open certificate, next Agglayer call fails before / after taking effect, L1 advances}; " +
		"every step sequence up to depth D exhaustively (after a fixed prefix that creates data), then PRNG walks; x RetryCertAfterInError x MaxCertSize; " +
		"signature = (previous certificate state, tick kind, outcome) triples and walk classes")
	r.Assume("the model Agglayer behaves like a permissive server and evaluates the acceptance checks A1-A5 itself (DESIGN.md 2.4)",
		"liveness is judged as bounded progress: 6 fault-free rounds of verdict/status/epoch ticks at the end of a walk")
	workers := runtime.NumCPU()
	alphabet := []int{stL2Events, stL2Events, stL2Empty, stEpoch, stEpoch, stStatus, stAdvance, stInError, stFailBefore, stFailAfter, stL1Advance, stSettle, stL2Reorg}
	cfgs := []asNodeCfg{{RetryAfterInError: true}, {RetryAfterInError: false}, {RetryAfterInError: true, MaxCertSize: 4000}, {RetryAfterInError: false, MaxCertSize: 4000, KeepHistory: true},
		{RetryAfterInError: true, FEP: true}, {RetryAfterInError: false, FEP: true}}

	// ---- exhaustive small depth ------------------------------------------------------------------
	depth := r.N(3, 5)
	exAlpha := []int{stL2Events, stEpoch, stStatus, stAdvance, stInError, stFailBefore, stFailAfter, stSettle}
	var seqs [][]int
	var gen func(pre []int)
	gen = func(pre []int) {
		if len(pre) == depth {
			seqs = append(seqs, append([]int{}, pre...))
			return
		}
		for _, s := range exAlpha {
			gen(append(pre, s))
		}
	}
	gen(nil)
	r.Set("exhaustive_sequences", len(seqs)*2)
	r.Set("exhaustive_box", fmt.Sprintf("all %d^%d step sequences over %v after the prefix [L2events epoch], for both retry settings", len(exAlpha), depth, []string{"L2events", "epoch", "status", "advance", "inError", "failBefore", "failAfter", "settle"}))
	parallel(len(seqs)*2, workers, func(i int) {
		caseID := fmt.Sprintf("ex/%d", i)
		if !r.Only(caseID) {
			return
		}
		seq := append([]int{stL2Events, stEpoch}, seqs[i/2]...)
		c02Walk(r, caseID, rng(r, "ex", i), cfgs[i%2], seq, 0, nil, false, "C02")
	})

	// ---- random walks ----------------------------------------------------------------------------
	nWalks := r.N(150, 3000)
	parallel(nWalks, workers, func(i int) {
		caseID := fmt.Sprintf("walk/%d", i)
		if !r.Only(caseID) {
			return
		}
		g := rng(r, "walk", i)
		c02Walk(r, caseID, g, cfgs[g.Intn(len(cfgs))], nil, 40+g.Intn(r.N(40, 80)), alphabet, true, "C02")
	})
	finish(t, r, r.N(20, 40), "prev=none/epoch/sent", "prev=settled/epoch/sent", "prev=inError/*", "prev=open/epoch/skipped", "settled=*")
}
