package checks

import (
	"context"
	"fmt"
	"math/big"
	"math/rand"
	"path/filepath"
	"runtime"
	"sync/atomic"
	"testing"
	"time"

	"github.com/agglayer/aggkit/l1infotreesync"
	aggsync "github.com/agglayer/aggkit/sync"
	aggkittypes "github.com/agglayer/aggkit/types"
	"github.com/ethereum/go-ethereum/common"
	"verifharness/evm"
	"verifharness/mon"
	"verifharness/ref"
	"verifharness/world"
)

// C11 — the L1 info tree and rollup exit tree mirror the L1 contracts.

// c11CheckStoreVsRef compares every look-up of the property with the reference model
func c11CheckStoreVsRef(s *l1infotreesync.L1InfoTreeSync, rf *world.RefL1) (sig, what string) {
	ctx := context.Background()
	for i, lf := range rf.Leaves {
		got, err := s.GetInfoByIndex(ctx, uint32(i))
		if err != nil {
			return "leaf-missing", fmt.Sprintf("GetInfoByIndex(%d): %v", i, err)
		}
		if got.L1InfoTreeIndex != uint32(i) || got.BlockNumber != lf.Block || got.BlockPosition != lf.Pos {
			return "leaf-order-or-index", fmt.Sprintf("leaf %d: node (index %d, block %d, pos %d), chain order says block %d pos %d", i, got.L1InfoTreeIndex, got.BlockNumber, got.BlockPosition, lf.Block, lf.Pos)
		}
		if got.MainnetExitRoot != lf.MER || got.RollupExitRoot != lf.RER || got.PreviousBlockHash != lf.ParentHash || got.Timestamp != lf.Timestamp || got.GlobalExitRoot != lf.GER {
			return "leaf-fields", fmt.Sprintf("leaf %d fields differ from the L1 info update", i)
		}
		if got.Hash != lf.Hash {
			return "leaf-hash", fmt.Sprintf("leaf %d: node hash %s, contract leaf value %s", i, got.Hash.Hex(), lf.Hash.Hex())
		}
		rt, err := s.GetL1InfoTreeRootByIndex(ctx, uint32(i))
		if err != nil || rt.Hash != lf.Root {
			return "l1-info-root", fmt.Sprintf("L1 info root for leaf count %d: node %s (err=%v), contract %s", i+1, rt.Hash.Hex(), err, lf.Root.Hex())
		}
		byGER, err := s.GetInfoByGlobalExitRoot(lf.GER)
		if err != nil || byGER.L1InfoTreeIndex != uint32(i) || byGER.Hash != lf.Hash {
			return "lookup-by-ger", fmt.Sprintf("GetInfoByGlobalExitRoot(GER of leaf %d) = %+v, %v", i, byGER, err)
		}
	}
	if _, err := s.GetInfoByIndex(ctx, uint32(len(rf.Leaves))); err == nil {
		return "extra-leaf", fmt.Sprintf("node has a leaf with index %d, the chain only has %d updates", len(rf.Leaves), len(rf.Leaves))
	}
	if len(rf.Leaves) > 0 {
		last, err := s.GetLastInfo()
		if err != nil || last.L1InfoTreeIndex != uint32(len(rf.Leaves)-1) {
			return "last-leaf", fmt.Sprintf("GetLastInfo = %+v, %v", last, err)
		}
	}
	// rollup exit tree
	lastByID := map[uint32]world.RollupUpdate{}
	for ui, u := range rf.Updates {
		lastByID[u.RollupID] = u
		for id := range lastByID {
			want := rf.RET.LeafAt(u.Version, id-1)
			got, err := s.GetLocalExitRoot(ctx, id, u.Root)
			if err != nil || got != want {
				return "rollup-exit-leaf", fmt.Sprintf("GetLocalExitRoot(rollup %d, root of update #%d) = %s, %v; last non-zero exit root verified by then: %s", id, ui, got.Hex(), err, want.Hex())
			}
		}
	}
	if len(rf.Updates) > 0 {
		lr, err := s.GetLastRollupExitRoot(ctx)
		if err != nil || lr.Hash != rf.Updates[len(rf.Updates)-1].Root {
			return "rollup-exit-root", fmt.Sprintf("GetLastRollupExitRoot = %s, %v; rollup manager's root %s", lr.Hash.Hex(), err, rf.Updates[len(rf.Updates)-1].Root.Hex())
		}
		for id, u := range lastByID {
			vb, err := s.GetLastVerifiedBatches(id)
			if err != nil || vb.ExitRoot != u.ExitRoot || vb.RollupExitRoot != u.Root || vb.BlockNumber != u.Block || vb.RollupID != id {
				return "verified-batches-row", fmt.Sprintf("GetLastVerifiedBatches(%d) = %+v, %v; expected exit root %s with rollup exit root %s at block %d", id, vb, err, u.ExitRoot.Hex(), u.Root.Hex(), u.Block)
			}
		}
	} else if _, err := s.GetLastRollupExitRoot(ctx); err == nil {
		return "rollup-exit-root", "node has a rollup exit root although no effective verification happened"
	}
	return "", ""
}

func TestC11(t *testing.T) {
	r := mon.Start("C11", "exploration")
	r.Rule("Level A: the real GlobalExitRootV2 + bridge + a rollup manager stand-in (verbatim getRollupExitRoot) in an in-process EVM, synced by the real l1infotreesync (downloader + driver + processor); " +
		"l1InfoRootMap(n), getLeafValue, getRollupExitRoot and per-rollup exit roots read from the contracts after every block are the oracle, and validate the reference model; " +
		"Level A2: the real syncer over the chain simulator with ABI-encoded logs (several events per transaction, large rollup ids, zero / unchanged exit roots); " +
		"Level B: the real processor fed typed events, against the reference; signature = (level, event mix classes, rollup id class, zero/unchanged exit root present)")
	r.Assume("exit roots never return to an earlier value (they are roots of append-only trees; the node's root table would refuse a repeated root)",
		"in Level A a zero exit root is never verified for a rollup that already has a non-zero one (the stand-in would overwrite it, the node keeps the last non-zero one by design)")
	workers := runtime.NumCPU()
	var refVsEVM atomic.Int64

	// ---- Level A ------------------------------------------------------------------------------
	nA := r.N(20, 300)
	maxEv := r.N(40, 150)
	parallel(nA, workers, func(i int) {
		caseID := fmt.Sprintf("evm/%d", i)
		if !r.Only(caseID) {
			return
		}
		g := rng(r, "evm", i)
		trace := []string{}
		scen := map[string]any{"trace": &trace}
		guard(r, caseID, scen, func() {
			l1, err := evm.NewL1()
			if err != nil {
				r.Inconclusive("cannot start the in-process EVM: " + err.Error())
				return
			}
			defer l1.Close()
			rf := world.NewRefL1()
			ids := []uint32{1, 2, 3, 7}
			hasNonZero := map[uint32]bool{}
			curExit := map[uint32]common.Hash{}
			startBlock, _ := l1.Backend.Client().BlockNumber(context.Background())
			nEvents := 5 + g.Intn(maxEv)
			type perBlock struct {
				num        uint64
				l1Root     common.Hash
				leafCount  uint32
				rollupRoot common.Hash
			}
			var blocks []perBlock
			zeroSeen, unchangedSeen, multi := false, false, false
			for done := 0; done < nEvents; {
				k := 1 + g.Intn(3)
				if k > 1 {
					multi = true
				}
				for j := 0; j < k; j++ {
					if g.Intn(2) == 0 {
						if _, err := l1.Deposit(uint32(1+g.Intn(4)), world.RandAddr(g), big.NewInt(int64(1+g.Intn(1000))), nil, false, true); err != nil {
							r.Inconclusive("deposit not accepted: " + err.Error())
							return
						}
						trace = append(trace, "deposit+updateGER")
					} else {
						id := ids[g.Intn(len(ids))]
						var exit common.Hash
						switch g.Intn(6) {
						case 0:
							if !hasNonZero[id] {
								zeroSeen = true
							} else {
								exit = world.RandHash(g)
							}
						case 1:
							exit = curExit[id] // the value it already has (pending transactions included)
							if exit != (common.Hash{}) {
								unchangedSeen = true
							}
						default:
							exit = world.RandHash(g)
						}
						if exit != (common.Hash{}) {
							hasNonZero[id] = true
							curExit[id] = exit
						}
						upd := g.Intn(4) != 0
						if _, err := l1.VerifyBatches(id, uint64(g.Intn(100)), exit, world.RandHash(g), upd, g.Intn(2) == 0); err != nil {
							r.Inconclusive("verifyBatches not accepted: " + err.Error())
							return
						}
						trace = append(trace, fmt.Sprintf("verify(%d,zero=%v,updateGER=%v)", id, exit == (common.Hash{}), upd))
					}
					done++
				}
				hd, err := l1.Commit()
				if err != nil {
					r.Inconclusive(err.Error())
					return
				}
				trace = append(trace, fmt.Sprintf("-- block %d", hd.Number.Uint64()))
				cnt, _ := l1.GER.DepositCount(nil)
				root, _ := l1.GER.GetRoot(nil)
				rr, _ := l1.RM.GetRollupExitRoot(nil)
				blocks = append(blocks, perBlock{num: hd.Number.Uint64(), l1Root: root, leafCount: uint32(cnt.Uint64()), rollupRoot: rr})
			}
			head, _ := l1.Backend.Client().BlockNumber(context.Background())
			// sync with the real syncer
			ctx, cancel := context.WithCancel(context.Background())
			defer cancel()
			s, err := l1infotreesync.New(ctx, filepath.Join(scratchDir("c11"), "l1.sqlite"), l1.GERAddr, l1.RMAddr, uint64(1+g.Intn(20)),
				aggkittypes.LatestBlock, newFakeRD(), l1.Backend.Client(), time.Millisecond, 0, time.Millisecond, -1,
				l1infotreesync.FlagAllowWrongContractsAddrs, aggkittypes.FinalizedBlock, false)
			if err != nil {
				r.Inconclusive("cannot build the syncer: " + err.Error())
				return
			}
			go s.Start(ctx)
			// the syncer only records blocks with events (and markers up to the finalized block):
			// it has caught up when the last block that carries a log of the contracts is recorded
			allLogs, err := l1.Logs(startBlock+1, head, l1.GERAddr, l1.RMAddr)
			if err != nil {
				r.Inconclusive(err.Error())
				return
			}
			lastEventBlock := uint64(0)
			for _, lg := range allLogs {
				if lg.BlockNumber > lastEventBlock {
					lastEventBlock = lg.BlockNumber
				}
			}
			deadline := time.Now().Add(60 * time.Second)
			for {
				lp, err := s.GetLastProcessedBlock(ctx)
				if err == nil && lp >= lastEventBlock {
					break
				}
				if err != nil {
					r.Violation("C11:evm:syncer-refuses", caseID, "GetLastProcessedBlock: "+err.Error(), scen)
					return
				}
				if time.Now().After(deadline) {
					r.Violation("C11:evm:syncer-does-not-reach-the-last-event-block", caseID, fmt.Sprintf("last processed %d, last block with events %d, tip %d", lp, lastEventBlock, head), scen)
					return
				}
				time.Sleep(2 * time.Millisecond)
			}
			// build the reference from the contract's own logs (typed through the real ABI)
			logs := allLogs
			byBlock := map[uint64][]any{}
			var order []uint64
			for _, lg := range logs {
				hd, _ := l1.Backend.Client().HeaderByNumber(ctx, new(big.Int).SetUint64(lg.BlockNumber))
				if _, ok := byBlock[lg.BlockNumber]; !ok {
					order = append(order, lg.BlockNumber)
				}
				if u, err := l1.GER.ParseUpdateL1InfoTree(lg); err == nil {
					byBlock[lg.BlockNumber] = append(byBlock[lg.BlockNumber], l1infotreesync.Event{UpdateL1InfoTree: &l1infotreesync.UpdateL1InfoTree{
						BlockPosition: uint64(lg.Index), MainnetExitRoot: u.MainnetExitRoot, RollupExitRoot: u.RollupExitRoot, ParentHash: hd.ParentHash, Timestamp: hd.Time}})
				} else if v, err := l1.RM.ParseVerifyBatches(lg); err == nil {
					byBlock[lg.BlockNumber] = append(byBlock[lg.BlockNumber], l1infotreesync.Event{VerifyBatches: &l1infotreesync.VerifyBatches{
						BlockPosition: uint64(lg.Index), RollupID: v.RollupID, NumBatch: v.NumBatch, StateRoot: v.StateRoot, ExitRoot: v.ExitRoot, Aggregator: v.Aggregator}})
				} else if v, err := l1.RM.ParseVerifyBatchesTrustedAggregator(lg); err == nil {
					byBlock[lg.BlockNumber] = append(byBlock[lg.BlockNumber], l1infotreesync.Event{VerifyBatches: &l1infotreesync.VerifyBatches{
						BlockPosition: uint64(lg.Index), RollupID: v.RollupID, NumBatch: v.NumBatch, StateRoot: v.StateRoot, ExitRoot: v.ExitRoot, Aggregator: v.Aggregator}})
				}
			}
			bi := 0
			for _, num := range order {
				rf.ApplyBlock(aggsync.Block{Num: num, Events: byBlock[num]})
				for bi < len(blocks) && blocks[bi].num < num {
					bi++
				}
				if bi < len(blocks) && blocks[bi].num == num {
					// reference vs contract, per block
					if uint32(len(rf.Leaves)) != blocks[bi].leafCount || rf.Frontier.Root() != blocks[bi].l1Root {
						r.Inconclusive(fmt.Sprintf("reference L1 info tree disagrees with the contract at block %d", num))
						return
					}
					if len(rf.Updates) > 0 && rf.Updates[len(rf.Updates)-1].Root != blocks[bi].rollupRoot {
						r.Inconclusive(fmt.Sprintf("reference rollup exit tree disagrees with the rollup manager at block %d", num))
						return
					}
					refVsEVM.Add(2)
				}
			}
			// contract look-ups as direct oracle
			for n := 1; n <= len(rf.Leaves); n++ {
				cr, err := l1.GER.L1InfoRootMap(nil, uint32(n))
				if err != nil {
					r.Inconclusive(err.Error())
					return
				}
				rt, err := s.GetL1InfoTreeRootByIndex(ctx, uint32(n-1))
				if err != nil || rt.Hash != common.Hash(cr) {
					r.Violation("C11:evm:l1-info-root-differs-from-contract", caseID, fmt.Sprintf("leaf count %d: contract l1InfoRootMap %s, node %s (err=%v)", n, common.Hash(cr).Hex(), rt.Hash.Hex(), err), scen)
					return
				}
				lf := rf.Leaves[n-1]
				cl, err := l1.GER.GetLeafValue(nil, lf.GER, new(big.Int).SetBytes(lf.ParentHash[:]), lf.Timestamp)
				if err != nil {
					r.Inconclusive(err.Error())
					return
				}
				got, err := s.GetInfoByIndex(ctx, uint32(n-1))
				if err != nil || got.Hash != common.Hash(cl) {
					r.Violation("C11:evm:leaf-differs-from-contract", caseID, fmt.Sprintf("leaf %d: contract getLeafValue %s, node %v (err=%v)", n-1, common.Hash(cl).Hex(), got, err), scen)
					return
				}
				refVsEVM.Add(1)
			}
			for _, id := range ids {
				want, _ := l1.RM.RollupIDToLastExitRoot(nil, id)
				if want == ([32]byte{}) || len(rf.Updates) == 0 {
					continue
				}
				got, err := s.GetLocalExitRoot(ctx, id, rf.Updates[len(rf.Updates)-1].Root)
				if err != nil || got != common.Hash(want) {
					r.Violation("C11:evm:rollup-exit-leaf-differs-from-contract", caseID, fmt.Sprintf("rollup %d: contract %s, node %s (err=%v)", id, common.Hash(want).Hex(), got.Hex(), err), scen)
					return
				}
			}
			if sig, what := c11CheckStoreVsRef(s, rf); sig != "" {
				r.Violation("C11:evm:"+sig, caseID, what, scen)
				return
			}
			r.Eval(fmt.Sprintf("evm/leaves=%d/updates=%d/zero=%v/unchanged=%v/multi=%v", min(len(rf.Leaves)/10, 3), min(len(rf.Updates)/5, 3), zeroSeen, unchangedSeen, multi))
			if i < 4 {
				r.Sample(map[string]any{"level": "A", "leaves": len(rf.Leaves), "rollup_updates": len(rf.Updates), "trace_head": trace[:min(len(trace), 12)]})
			}
		})
	})

	// ---- Level A2: real syncer over the simulator ------------------------------------------------
	nA2 := r.N(40, 600)
	parallel(nA2, workers, func(i int) {
		caseID := fmt.Sprintf("sim/%d", i)
		if !r.Only(caseID) {
			return
		}
		c11Sim(r, caseID, rng(r, "sim", i))
	})

	// ---- Level B: processor level ------------------------------------------------------------
	nB := r.N(100, 5000)
	parallel(nB, workers, func(i int) {
		caseID := fmt.Sprintf("proc/%d", i)
		if !r.Only(caseID) {
			return
		}
		g := rng(r, "proc", i)
		scen := map[string]any{"case": i}
		guard(r, caseID, scen, func() {
			st, err := newStore("l1info", "c11b")
			if err != nil {
				r.Inconclusive("cannot open store: " + err.Error())
				return
			}
			defer st.Close()
			gen := world.NewL1Gen(g, world.L1Opts{StartBlock: uint64(1 + g.Intn(5)), MaxEventsBlock: 6, EmptyBlockPct: 15, GapPct: 30, Salt: 1, V2: true, Init: g.Intn(2) == 0})
			n := 5 + g.Intn(r.N(40, 120))
			var all []aggsync.Block
			for k := 0; k < n; k++ {
				b := gen.Next()
				all = append(all, b)
				if err := st.Process(b); err != nil {
					scen["blocks"] = blockSummary("l1info", all)
					r.Violation("C11:proc:process-error", caseID, fmt.Sprintf("ProcessBlock(%s): %v", blockSummary("l1info", []aggsync.Block{b})[0], err), scen)
					return
				}
			}
			// a third of the histories: the chain is reorged from exactly the block that carried the
			// last effective rollup verification (or a random one) and continues differently; the
			// trees must mirror the contracts of the final chain
			reorged := false
			if i%3 == 0 && len(all) > 3 {
				first := all[len(all)/2+g.Intn(len(all)-len(all)/2)].Num
				for k := len(all) - 1; k >= 0; k-- {
					hit := false
					for _, e := range all[k].Events {
						if vb := e.(l1infotreesync.Event).VerifyBatches; vb != nil && vb.ExitRoot != (common.Hash{}) {
							hit = true
						}
					}
					if hit && g.Intn(3) != 0 {
						first = all[k].Num
						break
					}
				}
				if err := st.Reorg(first); err != nil {
					r.Violation("C11:proc:reorg-error", caseID, err.Error(), scen)
					return
				}
				var surv []aggsync.Block
				for _, b := range all {
					if b.Num < first {
						surv = append(surv, b)
					}
				}
				gen.ResetTo(surv, first, 2)
				all = surv
				for k := 0; k < 3+g.Intn(12); k++ {
					b := gen.Next()
					all = append(all, b)
					if err := st.Process(b); err != nil {
						scen["blocks"] = blockSummary("l1info", all)
						r.Violation("C11:proc:process-error", caseID, fmt.Sprintf("after a reorg from %d: ProcessBlock(%s): %v", first, blockSummary("l1info", []aggsync.Block{b})[0], err), scen)
						return
					}
				}
				reorged = true
				scen["reorged_from"] = first
			}
			if sig, what := c11CheckStoreVsRef(st.Facade.(*l1infotreesync.L1InfoTreeSync), gen.Ref); sig != "" {
				scen["blocks"] = blockSummary("l1info", all)
				r.Violation("C11:proc:"+sig, caseID, what, scen)
				return
			}
			if reorged {
				r.Cover("proc/after-reorg")
			}
			big := false
			for id := range gen.Ref.Current {
				if id > 1000 {
					big = true
				}
			}
			r.Eval(fmt.Sprintf("proc/leaves=%d/updates=%d/bigid=%v", min(len(gen.Ref.Leaves)/20, 3), min(len(gen.Ref.Updates)/10, 3), big))
			r.Sample(map[string]any{"level": "B (processor)", "leaves": len(gen.Ref.Leaves), "rollup_updates": len(gen.Ref.Updates), "rollup_id_2^32-1_used": big})
		})
	})
	r.Set("ref_vs_evm_comparisons", int(refVsEVM.Load()))
	if refVsEVM.Load() == 0 && !r.Replaying() {
		r.Inconclusive("the reference models were not validated against the contract bytecode in this run")
	}
	finish(t, r, r.N(15, 30), "evm/*", "sim/*", "proc/*")
}

// c11Sim: like C05's (iii) but judged with the full C11 look-up oracle
func c11Sim(r *mon.Run, caseID string, g *rand.Rand) {
	scen := map[string]any{}
	guard(r, caseID, scen, func() {
		st, lg, ch, stop, err := runL1SyncOverSim(g, 30+g.Intn(r.N(60, 200)))
		if err != nil {
			r.Inconclusive("cannot run the syncer over the simulator: " + err.Error())
			return
		}
		defer stop()
		rf := lg.refOf(ch.Canonical())
		sig, what := "", ""
		for tries := 0; tries < 3000; tries++ {
			if sig, what = c11CheckStoreVsRef(st, rf); sig == "" {
				break
			}
			time.Sleep(5 * time.Millisecond)
		}
		if sig != "" {
			ev := ch.Events()
			if len(ev) > 80 {
				ev = ev[len(ev)-80:]
			}
			scen["chain_events_tail"] = ev
			r.Violation("C11:sim:"+sig, caseID, what, scen)
			return
		}
		r.Eval(fmt.Sprintf("sim/leaves=%d/updates=%d", min(len(rf.Leaves)/20, 3), min(len(rf.Updates)/10, 3)))
		r.Sample(map[string]any{"level": "A2 (real syncer over the chain simulator)", "leaves": len(rf.Leaves), "rollup_updates": len(rf.Updates)})
	})
}

var _ = ref.Depth
