package checks

import (
	"bytes"
	"context"
	"fmt"
	"math/rand"
	"os"
	"os/exec"
	"path/filepath"
	"runtime"
	"sort"
	"strconv"
	"strings"
	"sync/atomic"
	"testing"
	"time"

	"verifharness/mon"
)

// C07 plane 5 — process death and I/O errors below SQLite.
//
// The worker is this very test binary started as a child process (TestWorkerC07 with
// VERIF_WORKER set): it regenerates the same history from (kind, seed, #blocks), opens the store
// with the real constructor and processes every block above the store's last processed block,
// logging "begin n" / "end n". The parent runs it under strace, which kills the child (SIGKILL) at
// the N-th pwrite64 / fsync of a thread, or makes that system call fail with EIO / ENOSPC. The
// parent then opens the file itself: the complete table content must be exactly the fault-free
// twin's content after the store's own last processed block (all of a block or none of it), and a
// second, undisturbed worker must end in the twin's final state.

const workerEnv = "VERIF_WORKER"

func workerHistory(kind string, seed int64, n int) *history {
	h := newHistory(kind, rand.New(rand.NewSource(seed)))
	h.extend(n)
	return h
}

// TestWorkerC07 is the child-process entry point (a no-op unless VERIF_WORKER is set)
func TestWorkerC07(t *testing.T) {
	spec := os.Getenv(workerEnv)
	if spec == "" {
		t.Skip("worker entry point")
	}
	// kind:seed:blocks:dbpath:progressfile:retries
	f := strings.SplitN(spec, ":", 6)
	if len(f) != 6 {
		fmt.Fprintln(os.Stderr, "bad worker spec")
		os.Exit(3)
	}
	// every storage call of this goroutine happens on one OS thread, so "the N-th pwrite64 of the
	// thread" (strace's counting) is a meaningful crash point
	runtime.LockOSThread()
	seed, _ := strconv.ParseInt(f[1], 10, 64)
	n, _ := strconv.Atoi(f[2])
	retries, _ := strconv.Atoi(f[5])
	h := workerHistory(f[0], seed, n)
	prog, err := os.OpenFile(f[4], os.O_APPEND|os.O_CREATE|os.O_WRONLY, 0o644)
	if err != nil {
		os.Exit(3)
	}
	say := func(format string, a ...any) { fmt.Fprintf(prog, format+"\n", a...) }
	s, err := openStore(f[0], f[3])
	if err != nil {
		say("open-error %v", err)
		os.Exit(4)
	}
	lp, err := lastProcessedOf(s)
	if err != nil {
		say("lastprocessed-error %v", err)
		os.Exit(4)
	}
	say("start lastProcessed=%d", lp)
	for _, b := range h.blocks {
		if b.Num <= lp {
			continue
		}
		say("begin %d", b.Num)
		var perr error
		for attempt := 0; attempt <= retries; attempt++ {
			if perr = s.Process(cloneBlock(f[0], b)); perr == nil {
				break
			}
			say("error %d attempt=%d %v", b.Num, attempt, perr)
		}
		if perr != nil {
			say("giveup %d", b.Num)
			os.Exit(5)
		}
		say("end %d", b.Num)
	}
	say("done")
	s.Close()
	os.Exit(0)
}

func lastProcessedOf(s *store) (uint64, error) {
	f, ok := s.Facade.(interface {
		GetLastProcessedBlock(ctx context.Context) (uint64, error)
	})
	if !ok {
		return 0, fmt.Errorf("facade of %s has no GetLastProcessedBlock", s.Kind)
	}
	return f.GetLastProcessedBlock(context.Background())
}

func fpString(fp map[string]string) string {
	var k []string
	for t, v := range fp {
		k = append(k, t+"="+v)
	}
	sort.Strings(k)
	return strings.Join(k, ";")
}

type killOutcome struct {
	exit     string
	progress []string
}

func runWorker(spec string, straceArgs []string, timeout time.Duration) (killOutcome, error) {
	self, err := os.Executable()
	if err != nil {
		return killOutcome{}, err
	}
	args := []string{}
	name := self
	workerArgs := []string{"-test.run", "^TestWorkerC07$", "-test.count", "1"}
	if straceArgs != nil {
		name = "strace"
		args = append(append(args, straceArgs...), self)
	}
	args = append(args, workerArgs...)
	ctx, cancel := context.WithTimeout(context.Background(), timeout)
	defer cancel()
	cmd := exec.CommandContext(ctx, name, args...)
	cmd.Env = append(os.Environ(), workerEnv+"="+spec, "GOMAXPROCS=1")
	var out bytes.Buffer
	cmd.Stdout, cmd.Stderr = &out, &out
	err = cmd.Run()
	o := killOutcome{exit: "0"}
	if err != nil {
		o.exit = err.Error()
	}
	if ctx.Err() != nil {
		o.exit = "watchdog"
	}
	pf := strings.SplitN(spec, ":", 6)[4]
	if b, e := os.ReadFile(pf); e == nil {
		o.progress = strings.Split(strings.TrimSpace(string(b)), "\n")
	}
	return o, nil
}

func init() {
	c07Kill = func(r *mon.Run) {
		if _, err := exec.LookPath("strace"); err != nil {
			r.Set("kill_plane_skipped", "strace is not available; process death is then only covered by the statement-fault and cancellation planes")
			return
		}
		// ptrace must be permitted: a trivial traced command has to succeed
		if err := exec.Command("strace", "-f", "-o", "/dev/null", "-e", "trace=pwrite64", "true").Run(); err != nil {
			r.Set("kill_plane_skipped", "strace cannot trace in this environment ("+err.Error()+"); process death is then only covered by the statement-fault and cancellation planes")
			return
		}
		kinds := []string{"bridge", "l1info", "ger"}
		nBlocks := r.N(14, 30)
		perKind := r.N(16, 150)
		var kills, midTx, completed, ioFaults atomic.Int64
		type job struct {
			kind string
			i    int
		}
		var jobs []job
		for _, k := range kinds {
			for i := 0; i < perKind; i++ {
				jobs = append(jobs, job{k, i})
			}
		}
		parallel(len(jobs), runtime.NumCPU(), func(ji int) {
			j := jobs[ji]
			caseID := fmt.Sprintf("kill/%s/%d", j.kind, j.i)
			if !r.Only(caseID) {
				return
			}
			g := rng(r, "c07kill-"+j.kind, j.i)
			seed := g.Int63()
			sc := map[string]any{"kind": j.kind, "history_seed": seed, "blocks": nBlocks}
			guard(r, caseID, sc, func() {
				// fault-free twin, fingerprint after every block
				h := workerHistory(j.kind, seed, nBlocks)
				twin, err := newStore(j.kind, "c07twin")
				if err != nil {
					r.Inconclusive("twin: " + err.Error())
					return
				}
				fp0, _ := dbFingerprint(twin.DB, "key_value")
				fpAfter := map[uint64]string{0: fpString(fp0)}
				for _, b := range h.blocks {
					if err := twin.Process(cloneBlock(j.kind, b)); err != nil {
						twin.Close()
						// the generated history itself is refused (e.g. halts): not a kill scenario
						return
					}
					fp, _ := dbFingerprint(twin.DB, "key_value")
					fpAfter[b.Num] = fpString(fp)
				}
				twin.Close()
				last := h.lastNum()

				dir := scratchDir("c07kill")
				dbp := filepath.Join(dir, j.kind+".sqlite")
				prog := filepath.Join(dir, "progress.log")
				mode := []string{"kill", "kill", "kill", "EIO", "ENOSPC"}[g.Intn(5)]
				call := "pwrite64"
				if mode != "kill" && g.Intn(4) == 0 {
					call = "fsync"
				}
				// a counting run on a scratch copy tells how many such calls the main thread issues
				cntFile := filepath.Join(dir, "count.txt")
				specCount := fmt.Sprintf("%s:%d:%d:%s:%s:%d", j.kind, seed, nBlocks, filepath.Join(dir, "count.sqlite"), filepath.Join(dir, "count.log"), 0)
				if _, err := runWorker(specCount, []string{"-qq", "-c", "-e", "trace=" + call, "-o", cntFile}, 120*time.Second); err != nil {
					r.Inconclusive("kill plane: counting run failed: " + err.Error())
					return
				}
				total := 0
				if b, err := os.ReadFile(cntFile); err == nil {
					for _, ln := range strings.Split(string(b), "\n") {
						fl := strings.Fields(ln)
						if len(fl) >= 5 && fl[len(fl)-1] == call {
							total, _ = strconv.Atoi(fl[3])
						}
					}
				}
				if total == 0 {
					// the counting run could not be evaluated (e.g. no such call in this history): skip the case
					r.Add("kill_plane_cases_skipped_no_count", 1)
					r.Eval("")
					return
				}
				sc["calls_in_fault_free_run"] = total
				n := 1 + g.Intn(total)
				inject := fmt.Sprintf("inject=%s:signal=SIGKILL:when=%d", call, n)
				retries := 0
				if mode != "kill" {
					inject = fmt.Sprintf("inject=%s:error=%s:when=%d", call, mode, n)
					retries = 3
				}
				sc["fault"] = inject
				spec := fmt.Sprintf("%s:%d:%d:%s:%s:%d", j.kind, seed, nBlocks, dbp, prog, retries)
				out, err := runWorker(spec, []string{"-f", "-qq", "-o", "/dev/null", "-e", "trace=" + call, "-e", inject}, 120*time.Second)
				if err != nil || out.exit == "watchdog" {
					r.Inconclusive("kill plane: worker could not be run: " + fmt.Sprint(err, out.exit))
					return
				}
				sc["first_run_exit"] = out.exit
				sc["first_run_progress_tail"] = tailStr(out.progress, 6)
				inFlight := ""
				if len(out.progress) > 0 {
					lastLine := out.progress[len(out.progress)-1]
					if strings.HasPrefix(lastLine, "begin ") || strings.HasPrefix(lastLine, "error ") {
						inFlight = lastLine
					}
				}
				died := out.exit != "0"
				// (1) all or nothing at the point of death / after the I/O error
				s, err := openStore(j.kind, dbp)
				if err != nil {
					r.Violation("C07:kill:"+j.kind+":store-cannot-be-reopened:"+mode, caseID, fmt.Sprintf("after %s the store cannot be opened: %v", inject, err), sc)
					return
				}
				lp, err := lastProcessedOf(s)
				if err != nil {
					s.Close()
					r.Violation("C07:kill:"+j.kind+":last-processed-unreadable:"+mode, caseID, fmt.Sprintf("after %s: %v", inject, err), sc)
					return
				}
				fp, _ := dbFingerprint(s.DB, "key_value")
				s.Close()
				want, ok := fpAfter[lp]
				if !ok || fpString(fp) != want {
					r.Violation("C07:kill:"+j.kind+":torn-block:"+mode, caseID, fmt.Sprintf("after %s (exit %s, in flight: %q) the store's last processed block is %d but its content is not the fault-free content after that block (known boundary: %v)", inject, out.exit, inFlight, lp, ok), sc)
					return
				}
				// (2) an undisturbed continuation ends in the twin's final state
				out2, err := runWorker(spec, nil, 120*time.Second)
				if err != nil || out2.exit != "0" {
					sc["second_run_progress_tail"] = tailStr(out2.progress, 6)
					r.Violation("C07:kill:"+j.kind+":continuation-fails:"+mode, caseID, fmt.Sprintf("after %s the undisturbed continuation exits with %s", inject, out2.exit), sc)
					return
				}
				s, err = openStore(j.kind, dbp)
				if err != nil {
					r.Inconclusive("kill plane: reopen: " + err.Error())
					return
				}
				fp, _ = dbFingerprint(s.DB, "key_value")
				lp2, _ := lastProcessedOf(s)
				s.Close()
				if lp2 != last || fpString(fp) != fpAfter[last] {
					r.Violation("C07:kill:"+j.kind+":state-differs-after-continuation:"+mode, caseID, fmt.Sprintf("after %s and an undisturbed continuation the store (last processed %d) differs from the fault-free twin (last %d)", inject, lp2, last), sc)
					return
				}
				phase := "between-blocks"
				if inFlight != "" {
					phase = "mid-block"
				}
				switch {
				case mode == "kill" && died:
					kills.Add(1)
					if inFlight != "" {
						midTx.Add(1)
					}
					r.Eval(fmt.Sprintf("kill/%s/%s/%s/resumed-at=%s", j.kind, call, phase, cls(int(lp), int(last))))
				case mode != "kill" && hasPrefix(out.progress, "error "):
					ioFaults.Add(1)
					r.Eval(fmt.Sprintf("kill/%s/%s-%s/error-seen/exit=%v", j.kind, call, mode, out.exit == "0"))
				default:
					completed.Add(1)
					r.Eval("")
				}
			})
		})
		r.Set("kill_plane_process_deaths", int(kills.Load()))
		r.Set("kill_plane_deaths_mid_block", int(midTx.Load()))
		r.Set("kill_plane_io_errors_surfaced", int(ioFaults.Load()))
		r.Set("kill_plane_fault_not_reached", int(completed.Load()))
	}
}

func hasPrefix(lines []string, p string) bool {
	for _, l := range lines {
		if strings.HasPrefix(l, p) {
			return true
		}
	}
	return false
}

func cls(a, b int) string {
	switch {
	case a == 0:
		return "nothing"
	case a == b:
		return "everything"
	case 2*a < b:
		return "first-half"
	default:
		return "second-half"
	}
}
