package checks

import (
	"fmt"
	"runtime"
	"sort"
	"strings"
	"sync"
	"sync/atomic"
	"time"

	"github.com/anishathalye/porcupine"
	"verifharness/mon"
)

// C07 plane 4 — concurrent readers, checked for linearizability (porcupine).
//
// One writer goroutine processes the blocks of a generated history (l1info: with reorgs of the
// last blocks followed by the same blocks again) while reader goroutines call exported queries of
// the same facade. Every call is recorded at the client boundary (call / return stamps from one
// atomic counter). The sequential specification is a fault-free twin: expected[k][q] = the twin's
// answer to query q after the first k blocks. The model state is k; a write moves k, a read is
// legal iff its answer is the twin's answer in the current state. A block whose row is visible
// before (or without) its events or tree nodes has no linearization.

var c07SingleSnapshot = map[string]bool{
	// bridge
	"GetLastProcessedBlock": true, "GetBridgeRootByHash": true, "GetClaims": true, "GetBridges": true, "GetRootByLER": true, "GetBlockByLER": true, "GetExitRootByIndex": true,
	// l1 info
	"GetInfoByIndex": true, "GetL1InfoTreeRootByIndex": true, "GetLastRollupExitRoot": true, "GetLastL1InfoTreeRoot": true, "GetLastVerifiedBatches": true, "GetFirstVerifiedBatches": true,
	"GetFirstVerifiedBatchesAfterBlock": true, "GetFirstL1InfoWithRollupExitRoot": true, "GetLastInfo": true, "GetFirstInfo": true, "GetFirstInfoAfterBlock": true, "GetInfoByGlobalExitRoot": true,
	"GetProcessedBlockUntil": true, "GetLatestInfoUntilBlock": true,
	// injected GER
	"GetFirstGERAfterL1InfoTreeIndex": true,
}

type c07Op struct {
	write bool
	to    int // state after the write
	q     int // index of the read query
}

func normAnswer(a answer) string {
	if a.Err == "" {
		return "V:" + a.Val
	}
	switch {
	case a.NotFound:
		return "E:notfound"
	case a.Incons:
		return "E:inconsistent"
	}
	l := strings.ToLower(a.Err)
	if strings.Contains(l, "locked") || strings.Contains(l, "busy") || strings.Contains(l, "interrupted") {
		return "?" // transient: carries no information about the state
	}
	if strings.Contains(l, "not found") {
		return "E:notfound"
	}
	return "E:" + clip(a.Err, 80)
}

func init() {
	c07Readers = func(r *mon.Run) {
		kinds := []string{"bridge", "l1info", "ger"}
		perKind := r.N(6, 80)
		nBlocks := r.N(12, 25)
		var histories, opsChecked, unknown, readsDuringWrite atomic.Int64
		type job struct {
			kind string
			i    int
		}
		var jobs []job
		for _, k := range kinds {
			for i := 0; i < perKind; i++ {
				jobs = append(jobs, job{k, i})
			}
		}
		parallel(len(jobs), runtime.NumCPU()/2, func(ji int) {
			j := jobs[ji]
			caseID := fmt.Sprintf("readers/%s/%d", j.kind, j.i)
			if !r.Only(caseID) {
				return
			}
			g := rng(r, "c07readers-"+j.kind, j.i)
			sc := map[string]any{"kind": j.kind}
			guard(r, caseID, sc, func() {
				h := newHistory(j.kind, g)
				h.extend(nBlocks)
				// full twin: argument pools and the query list
				full, err := newStore(j.kind, "c07rd-full")
				if err != nil {
					r.Inconclusive("readers: " + err.Error())
					return
				}
				for _, b := range h.blocks {
					if err := full.Process(cloneBlock(j.kind, b)); err != nil {
						full.Close()
						return // the history itself is refused (halts): not a scenario of this plane
					}
				}
				pools := poolsFor(j.kind, g, h.blocks, full, nil)
				allCalls, _ := buildCalls(full.Facade, facadeExclude, pools, g, 6)
				full.Close()
				// only queries that read the store in one statement / one read transaction: a query
				// made of several independent statements (paged listings: count + page; proofs: one
				// SELECT per tree level) may legitimately see block k in its first statement and block
				// k+1 in a later one, which is not "part of a block" and is not what C07 speaks about
				var all []call
				for _, c := range allCalls {
					if c07SingleSnapshot[c.Method] {
						all = append(all, c)
					}
				}
				g.Shuffle(len(all), func(a, b int) { all[a], all[b] = all[b], all[a] })
				// sequential specification
				twin, err := newStore(j.kind, "c07rd-twin")
				if err != nil {
					r.Inconclusive("readers: " + err.Error())
					return
				}
				expAll := make([][]string, len(h.blocks)+1)
				for k := 0; k <= len(h.blocks); k++ {
					if k > 0 {
						if err := twin.Process(cloneBlock(j.kind, h.blocks[k-1])); err != nil {
							twin.Close()
							return
						}
					}
					for _, c := range all {
						expAll[k] = append(expAll[k], normAnswer(ask(twin.Facade, c)))
					}
				}
				twin.Close()
				// keep queries whose answer depends on the state (a constant answer decides nothing)
				var qs []call
				var exp [][]string
				for qi, c := range all {
					varies := false
					for k := 1; k <= len(h.blocks); k++ {
						if expAll[k][qi] != expAll[0][qi] {
							varies = true
						}
					}
					if varies && len(qs) < 14 {
						qs = append(qs, c)
						for k := range expAll {
							if len(exp) <= k {
								exp = append(exp, nil)
							}
							exp[k] = append(exp[k], expAll[k][qi])
						}
					}
				}
				if len(qs) < 3 {
					r.Inconclusive("readers: fewer than 3 state-dependent queries for kind " + j.kind)
					return
				}
				// concurrent run
				s, err := newStore(j.kind, "c07rd")
				if err != nil {
					r.Inconclusive("readers: " + err.Error())
					return
				}
				defer s.Close()
				s.DB.SetMaxOpenConns(8)
				var clock atomic.Int64
				var mu sync.Mutex
				var ops []porcupine.Operation
				var descs = map[int]string{}
				record := func(client int, in c07Op, desc string, f func() string) {
					t0 := clock.Add(1)
					out := f()
					t1 := clock.Add(1)
					mu.Lock()
					descs[len(ops)] = desc
					ops = append(ops, porcupine.Operation{ClientId: client, Input: in, Call: t0, Output: out, Return: t1})
					mu.Unlock()
				}
				var writing atomic.Bool
				var wg sync.WaitGroup
				stop := make(chan struct{})
				writerFailed := ""
				wg.Add(1)
				go func() {
					defer wg.Done()
					defer close(stop)
					k := 0
					for k < len(h.blocks) {
						b := h.blocks[k]
						writing.Store(true)
						record(0, c07Op{write: true, to: k + 1}, fmt.Sprintf("ProcessBlock(%d)", b.Num), func() string {
							if err := s.Process(cloneBlock(j.kind, b)); err != nil {
								writerFailed = fmt.Sprintf("ProcessBlock(%d): %v", b.Num, err)
								return "err"
							}
							return "ok"
						})
						writing.Store(false)
						if writerFailed != "" {
							return
						}
						k++
						if j.kind == "l1info" && k > 2 && g.Intn(6) == 0 {
							back := 1 + g.Intn(min(3, k-1))
							first := h.blocks[k-back].Num
							writing.Store(true)
							record(0, c07Op{write: true, to: k - back}, fmt.Sprintf("Reorg(%d)", first), func() string {
								if err := s.Reorg(first); err != nil {
									writerFailed = fmt.Sprintf("Reorg(%d): %v", first, err)
									return "err"
								}
								return "ok"
							})
							writing.Store(false)
							if writerFailed != "" {
								return
							}
							k -= back
						}
						if g.Intn(3) == 0 {
							time.Sleep(time.Duration(g.Intn(300)) * time.Microsecond)
						}
					}
				}()
				nReaders := 3
				seeds := make([]int64, nReaders)
				for i := range seeds {
					seeds[i] = g.Int63()
				}
				for c := 1; c <= nReaders; c++ {
					wg.Add(1)
					go func(c int) {
						defer wg.Done()
						lg := newLCG(seeds[c-1])
						for n := 0; n < 16; n++ {
							select {
							case <-stop:
								return
							default:
							}
							qi := lg.intn(len(qs))
							during := writing.Load()
							record(c, c07Op{q: qi}, qs[qi].Desc, func() string { return normAnswer(ask(s.Facade, qs[qi])) })
							if during {
								readsDuringWrite.Add(1)
							}
							time.Sleep(time.Duration(lg.intn(400)) * time.Microsecond)
						}
					}(c)
				}
				wg.Wait()
				if writerFailed != "" {
					r.Violation("C07:readers:"+j.kind+":writer-failed-with-concurrent-readers", caseID, "the writer failed while readers were active: "+writerFailed, sc)
					return
				}
				model := porcupine.Model{
					Init: func() any { return 0 },
					Step: func(state, input, output any) (bool, any) {
						in := input.(c07Op)
						k := state.(int)
						if in.write {
							return true, in.to
						}
						out := output.(string)
						if out == "?" {
							return true, k
						}
						return exp[k][in.q] == out, k
					},
					Equal: func(a, b any) bool { return a.(int) == b.(int) },
				}
				res := porcupine.CheckOperationsTimeout(model, ops, 60*time.Second)
				histories.Add(1)
				opsChecked.Add(int64(len(ops)))
				switch res {
				case porcupine.Ok:
					nq := 0
					for _, o := range ops {
						if !o.Input.(c07Op).write && o.Output.(string) != "?" {
							nq++
						}
					}
					r.Eval(fmt.Sprintf("readers/%s/reads=%d/linearizable", j.kind, min(nq/10, 4)*10))
				case porcupine.Unknown:
					unknown.Add(1)
					r.Inconclusive("readers: linearizability checker timed out on a history of " + fmt.Sprint(len(ops)) + " operations")
				case porcupine.Illegal:
					idx := make([]int, len(ops))
					for i := range idx {
						idx[i] = i
					}
					sort.Slice(idx, func(a, b int) bool { return ops[idx[a]].Call < ops[idx[b]].Call })
					var lines []string
					for _, i := range idx {
						o := ops[i]
						note := ""
						if in := o.Input.(c07Op); !in.write {
							var ks []int
							for k := range exp {
								if exp[k][in.q] == o.Output.(string) {
									ks = append(ks, k)
								}
							}
							note = fmt.Sprintf("   {the specification gives this answer after k blocks, k in %v}", compactInts(ks))
							if len(ks) == 0 {
								var alts []string
								for k := range exp {
									alts = append(alts, fmt.Sprintf("k=%d: %s", k, diffAt(exp[k][in.q], o.Output.(string))))
								}
								sc["answers_of_the_specification_for_"+descs[i]] = alts
								sc["observed_answer_for_"+descs[i]] = o.Output
							}
						} else {
							note = fmt.Sprintf("   {state becomes k=%d}", o.Input.(c07Op).to)
						}
						lines = append(lines, fmt.Sprintf("[%d,%d] client %d %s -> %s%s", o.Call, o.Return, o.ClientId, descs[i], clip(fmt.Sprint(o.Output), 100), note))
					}
					sc["history"] = lines
					r.Violation("C07:readers:"+j.kind+":history-not-linearizable", caseID, fmt.Sprintf("a history of %d operations (1 writer, %d readers) has no linearization against the block-by-block specification: some read saw a state that is not the state after a whole number of blocks", len(ops), nReaders), sc)
				}
			})
		})
		r.Set("reader_histories_checked", int(histories.Load()))
		r.Set("reader_operations_checked", int(opsChecked.Load()))
		r.Set("reader_reads_that_overlapped_a_write", int(readsDuringWrite.Load()))
		r.Set("reader_checker_timeouts", int(unknown.Load()))
	}
}

// lcg: a tiny private PRNG per reader goroutine (math/rand.Rand is not goroutine safe)
type lcg struct{ s uint64 }

func newLCG(seed int64) *lcg { return &lcg{s: uint64(seed)*2862933555777941757 + 3037000493} }
func (l *lcg) intn(n int) int {
	l.s = l.s*6364136223846793005 + 1442695040888963407
	return int((l.s >> 33) % uint64(n))
}

func compactInts(v []int) string {
	if len(v) == 0 {
		return "{}"
	}
	var parts []string
	a, b := v[0], v[0]
	for _, x := range v[1:] {
		if x == b+1 {
			b = x
			continue
		}
		parts = append(parts, fmt.Sprintf("%d-%d", a, b))
		a, b = x, x
	}
	parts = append(parts, fmt.Sprintf("%d-%d", a, b))
	return strings.Join(parts, ",")
}

// diffAt shows where two renderings start to differ
func diffAt(a, b string) string {
	i := 0
	for i < len(a) && i < len(b) && a[i] == b[i] {
		i++
	}
	lo := max(0, i-20)
	return fmt.Sprintf("len %d vs %d, first difference at %d: ...%s | ...%s", len(a), len(b), i, clip(a[lo:], 90), clip(b[lo:], 90))
}
