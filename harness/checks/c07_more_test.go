package checks

import "verifharness/mon"

// c07Readers: plane 4 — concurrent readers checked for linearizability (porcupine); see c07_readers_test.go
var c07Readers = func(r *mon.Run) {}

// c07Kill: plane 5 — process death and IO errors under strace; see c07_kill_test.go
var c07Kill = func(r *mon.Run) {}
