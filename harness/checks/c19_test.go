package checks

import (
	"bytes"
	"fmt"
	"math/big"
	"runtime"
	"testing"

	agglayertypes "github.com/agglayer/aggkit/agglayer/types"
	"github.com/agglayer/aggkit/aggsender/flows"
	"github.com/agglayer/aggkit/bridgesync"
	"github.com/agglayer/aggkit/log"
	"github.com/ethereum/go-ethereum/common"
	"github.com/ethereum/go-ethereum/crypto"
	"verifharness/mon"
	"verifharness/ref"
)

// C19 — global indexes are encoded and decoded consistently everywhere.
//
// Oracle: ref.GlobalIndex (flag<<64 | rollup<<32 | leaf). Observed at the real boundaries:
// GenerateGlobalIndex, DecodeGlobalIndex, the certificate struct built by the real
// ConvertClaimToImportedBridgeExit, GlobalIndex.Hash (PP/identity commitment input),
// GlobalIndexToLittleEndianBytes (FEP commitment input), the protobuf message built by the real
// gRPC client (captured by a fake submission service), the prover request built by the real
// aggchain-proof client (captured by a fake service), the optimistic commitment input.
func TestC19(t *testing.T) {
	r := mon.Start("C19", "exploration")
	r.Rule("triples (mainnet, rollupIndex, leafIndex): boundary set^2 x {mainnet,rollup} exhaustively, then PRNG triples; " +
		"signature = (mainnet, byte-length class of rollup index, byte-length class of leaf index, consumer)")
	r.Assume("canonical global indexes only (rollup index 0 when the mainnet flag is set; bits above 64 zero)")

	bnd := []uint32{0, 1, 2, 255, 256, 257, 1<<16 - 1, 1 << 16, 1<<16 + 1, 1<<24 - 1, 1 << 24, 1<<24 + 1, 1<<31 - 1, 1 << 31, 1<<32 - 2, 1<<32 - 1}

	bf := flows.NewBaseFlow(log.WithFields("m", "c19"), nil, nil, nil, nil, flows.NewBaseFlowConfigDefault())

	cls := func(v uint32) int {
		switch {
		case v == 0:
			return 0
		case v < 1<<8:
			return 1
		case v < 1<<16:
			return 2
		case v < 1<<24:
			return 3
		default:
			return 4
		}
	}
	le32 := func(v *big.Int) []byte {
		var be [32]byte
		v.FillBytes(be[:])
		out := make([]byte, 32)
		for i := 0; i < 32; i++ {
			out[i] = be[31-i]
		}
		return out
	}

	checkLight := func(caseID string, m bool, ro, le uint32) {
		if !r.Only(caseID) {
			return
		}
		sc := map[string]any{"mainnet": m, "rollup": ro, "leaf": le}
		guard(r, caseID, sc, func() {
			want := ref.GlobalIndex(m, ro, le)
			wantRo := ro
			if m {
				wantRo = 0
			}
			got := bridgesync.GenerateGlobalIndex(m, ro, le)
			if got.Cmp(want) != 0 {
				r.Violation("C19:generate:bit-layout", caseID, fmt.Sprintf("GenerateGlobalIndex(%v,%d,%d)=0x%x want 0x%x", m, ro, le, got, want), sc)
			}
			dm, dr, dl, err := bridgesync.DecodeGlobalIndex(want)
			if err != nil || dm != m || dr != wantRo || dl != le {
				r.Violation("C19:decode:roundtrip", caseID, fmt.Sprintf("DecodeGlobalIndex(0x%x)=(%v,%d,%d,%v) want (%v,%d,%d)", want, dm, dr, dl, err, m, wantRo, le), sc)
			}
			// commitments
			gi := &agglayertypes.GlobalIndex{MainnetFlag: m, RollupIndex: wantRo, LeafIndex: le}
			if h := gi.Hash(); h != crypto.Keccak256Hash(le32(want)) {
				r.Violation("C19:commitment:globalindex-hash", caseID, fmt.Sprintf("GlobalIndex.Hash mismatch for 0x%x", want), sc)
			}
			ibe := &agglayertypes.ImportedBridgeExit{GlobalIndex: gi}
			if b := ibe.GlobalIndexToLittleEndianBytes(); !bytes.Equal(b, le32(want)) {
				r.Violation("C19:commitment:little-endian", caseID, fmt.Sprintf("GlobalIndexToLittleEndianBytes=%x want %x", b, le32(want)), sc)
			}
			r.Eval(fmt.Sprintf("light/m=%v/ro=%d/le=%d", m, cls(wantRo), cls(le)))
		})
	}

	type triple struct {
		m      bool
		ro, le uint32
		rnd    uint64
	}
	// checkHeavy pushes a batch of 1..4 claims with different global indexes through every
	// consumer at once (a certificate / prover request carries several imported exits)
	checkHeavy := func(caseID string, batch []triple) {
		if !r.Only(caseID) {
			return
		}
		sc := map[string]any{"batch": fmt.Sprintf("%+v", batch)}
		guard(r, caseID, sc, func() {
			var claims []bridgesync.Claim
			var ibes []*agglayertypes.ImportedBridgeExit
			var wants []*big.Int
			for _, tr := range batch {
				want := ref.GlobalIndex(tr.m, tr.ro, tr.le)
				wantRo := tr.ro
				if tr.m {
					wantRo = 0
				}
				claim := bridgesync.Claim{
					GlobalIndex:        new(big.Int).Set(want),
					OriginNetwork:      uint32(tr.rnd),
					OriginAddress:      common.BigToAddress(new(big.Int).SetUint64(tr.rnd)),
					DestinationAddress: common.BigToAddress(new(big.Int).SetUint64(tr.rnd * 3)),
					Amount:             new(big.Int).SetUint64(tr.rnd),
					DestinationNetwork: 7,
					Metadata:           []byte{byte(tr.rnd)},
				}
				ibe, err := bf.ConvertClaimToImportedBridgeExit(claim)
				if err != nil {
					r.Violation("C19:certificate:convert-error", caseID, err.Error(), sc)
					return
				}
				if ibe.GlobalIndex.MainnetFlag != tr.m || ibe.GlobalIndex.RollupIndex != wantRo || ibe.GlobalIndex.LeafIndex != tr.le {
					r.Violation("C19:certificate:struct", caseID, fmt.Sprintf("certificate carries %s for 0x%x", ibe.GlobalIndex.String(), want), sc)
				}
				claims = append(claims, claim)
				ibes = append(ibes, ibe)
				wants = append(wants, want)
			}
			// every other consumer derives its value from that struct
			for name, gots := range c19Consumers(r, caseID, sc, claims, ibes) {
				for k, got := range gots {
					if got.Cmp(wants[k]) != 0 {
						r.Violation("C19:consumer:"+name, caseID, fmt.Sprintf("%s carries 0x%x for claim %d of %d, the claim's global index is 0x%x", name, got, k, len(wants), wants[k]), sc)
					}
				}
				r.Cover(fmt.Sprintf("consumer/%s/batch=%d", name, len(batch)))
			}
			tr := batch[0]
			wr := tr.ro
			if tr.m {
				wr = 0
			}
			r.Eval(fmt.Sprintf("heavy/m=%v/ro=%d/le=%d/batch=%d", tr.m, cls(wr), cls(tr.le), len(batch)))
		})
	}

	// boundary set, exhaustive
	n := 0
	var pending []triple
	for _, m := range []bool{false, true} {
		for _, ro := range bnd {
			for _, le := range bnd {
				id := fmt.Sprintf("bnd/%v/%d/%d", m, ro, le)
				checkLight(id, m, ro, le)
				pending = append(pending, triple{m, ro, le, uint64(ro)*31 + uint64(le)})
				if len(pending) == 1+n%4 {
					checkHeavy(id, pending)
					pending = nil
				}
				n++
			}
		}
	}
	r.Set("boundary_triples", n)
	r.Sample(map[string]any{"mainnet": true, "rollup": 0, "leaf": 1<<32 - 1, "value": fmt.Sprintf("0x%x", ref.GlobalIndex(true, 0, 1<<32-1))})
	r.Sample(map[string]any{"mainnet": false, "rollup": 1, "leaf": 0, "value": fmt.Sprintf("0x%x", ref.GlobalIndex(false, 1, 0))})

	// random triples
	workers := runtime.NumCPU()
	nLight := r.N(1_000_000, 60_000_000)
	nHeavy := r.N(10_000, 1_000_000)
	per := nLight / workers
	parallel(workers, workers, func(w int) {
		g := rng(r, "light", w)
		for i := 0; i < per; i++ {
			m := g.Intn(2) == 0
			ro, le := randU32(g), randU32(g)
			checkLight(fmt.Sprintf("light/%d/%d", w, i), m, ro, le)
		}
	})
	perH := nHeavy / workers
	parallel(workers, workers, func(w int) {
		g := rng(r, "heavy", w)
		for i := 0; i < perH; i++ {
			var batch []triple
			for k := 1 + g.Intn(4); k > 0; k-- {
				batch = append(batch, triple{g.Intn(2) == 0, randU32(g), randU32(g), g.Uint64()})
			}
			checkHeavy(fmt.Sprintf("heavy/%d/%d", w, i), batch)
		}
	})
	// Outside the canonical domain (probe with a weaker oracle): an on-chain global index with the
	// mainnet bit AND left-over rollup bits decodes to (true, r != 0, l). Nothing says which value is
	// "right", but every place that re-encodes the certificate's struct (wire message, prover
	// request, both commitment encodings) must produce the SAME value, otherwise the Agglayer
	// verifies a commitment over something else than what it received.
	nNC := r.N(2000, 100000)
	parallel(workers, workers, func(w int) {
		g := rng(r, "noncanonical", w)
		for i := 0; i < nNC/workers; i++ {
			caseID := fmt.Sprintf("noncanonical/%d/%d", w, i)
			if !r.Only(caseID) {
				continue
			}
			ro, le := 1+randU32(g)%(1<<31), randU32(g)
			raw := new(big.Int).Lsh(big.NewInt(1), 64)
			raw.Or(raw, new(big.Int).Lsh(new(big.Int).SetUint64(uint64(ro)), 32))
			raw.Or(raw, new(big.Int).SetUint64(uint64(le)))
			sc := map[string]any{"on_chain_global_index": fmt.Sprintf("0x%x", raw)}
			guard(r, caseID, sc, func() {
				claim := bridgesync.Claim{GlobalIndex: raw, OriginNetwork: 3, Amount: big.NewInt(int64(i) + 1), DestinationNetwork: 7}
				ibe, err := bf.ConvertClaimToImportedBridgeExit(claim)
				if err != nil {
					return // refusing such an index is fine
				}
				vals := map[string]*big.Int{}
				leb := ibe.GlobalIndexToLittleEndianBytes()
				be := make([]byte, len(leb))
				for k := range leb {
					be[len(leb)-1-k] = leb[k]
				}
				vals["commitment-little-endian"] = new(big.Int).SetBytes(be)
				for name, gots := range c19Consumers(r, caseID, sc, []bridgesync.Claim{claim}, []*agglayertypes.ImportedBridgeExit{ibe}) {
					if name != "optimistic" && len(gots) == 1 {
						vals[name] = gots[0]
					}
				}
				var first *big.Int
				for _, v := range vals {
					if first == nil {
						first = v
					} else if first.Cmp(v) != 0 {
						sc["values"] = fmt.Sprintf("%x", vals)
						r.Violation("C19:noncanonical:encoders-disagree", caseID, fmt.Sprintf("for the decoded index %s the re-encoders disagree: %x", ibe.GlobalIndex.String(), vals), sc)
						return
					}
				}
				r.Eval(fmt.Sprintf("noncanonical/ro=%d/le=%d", cls(ro), cls(le)))
			})
		}
	})
	g := rng(r, "sample", 0)
	for i := 0; i < 3; i++ {
		m, ro, le := g.Intn(2) == 0, randU32(g), randU32(g)
		r.Sample(map[string]any{"mainnet": m, "rollup": ro, "leaf": le, "value": fmt.Sprintf("0x%x", ref.GlobalIndex(m, ro, le))})
	}
	finish(t, r, 40, "consumer/protobuf*", "consumer/prover-request*", "consumer/optimistic*")
}

// randU32 mixes uniform values with values of every byte length so leading-zero classes are hit
func randU32(g interface {
	Uint32() uint32
	Intn(int) int
}) uint32 {
	v := g.Uint32()
	switch g.Intn(6) {
	case 0:
		return v & 0xff
	case 1:
		return v & 0xffff
	case 2:
		return v & 0xffffff
	case 3:
		return v | 0x80000000
	}
	return v
}
