package checks

import (
	"encoding/json"
	"fmt"
	"net/http"
	"net/http/httptest"
	"runtime"
	"testing"
	"time"

	"github.com/agglayer/aggkit/bridgeservice"
	bridgetypes "github.com/agglayer/aggkit/bridgeservice/types"
	"github.com/agglayer/aggkit/bridgesync"
	"github.com/agglayer/aggkit/l1infotreesync"
	"github.com/agglayer/aggkit/lastgersync"
	"github.com/agglayer/aggkit/log"
	aggsync "github.com/agglayer/aggkit/sync"
	"github.com/ethereum/go-ethereum/common"
	"github.com/gin-gonic/gin"
	"verifharness/mon"
	"verifharness/ref"
	"verifharness/world"
)

// C12 — the bridge API's claim flow yields proofs the bridge contract would accept.

type c12Info struct {
	idx      uint32
	mer, rer common.Hash
	merCount int // number of L1 deposits covered by mer (root index + 1), 0 = none
	lerCount int // number of L2 deposits covered by the LER of our rollup under rer
	ler      common.Hash
	block    uint64
}

func c12Get(handler func(*gin.Context), query string) (int, []byte) {
	w := httptest.NewRecorder()
	c, _ := gin.CreateTestContext(w)
	c.Request = httptest.NewRequest(http.MethodGet, "/x?"+query, nil)
	handler(c)
	return w.Code, w.Body.Bytes()
}

func proofOf(p bridgetypes.Proof) [32]common.Hash {
	var out [32]common.Hash
	for i := range out {
		out[i] = common.HexToHash(string(p[i]))
	}
	return out
}

func TestC12(t *testing.T) {
	gin.SetMode(gin.ReleaseMode)
	r := mon.Start("C12", "exploration")
	r.Rule("joint L1/L2 histories (bridges on both networks, L1 info updates at arbitrary points and several per block, batch verifications of our rollup and of others) loaded into the four real stores; " +
		"the real BridgeService handlers are called (gin test context) for every recorded bridge x every covering L1 info index (/claim-proof), for every bridge (/l1-info-tree-index) and every index (/injected-l1-info-leaf); " +
		"signature = (network kind, #updates in the deciding block, search outcome, distance between first covering index and the answer)")
	r.Assume("any non-200 answer of /l1-info-tree-index is accepted (refusals while a covering index existed are reported, not judged)",
		"every rollup exit root produced by a verification is included in an L1 info leaf (the API's documented assumption)")
	n := r.N(20, 400)
	maxSteps := r.N(90, 300)
	parallel(n, runtime.NumCPU(), func(i int) {
		caseID := fmt.Sprintf("hist/%d", i)
		if !r.Only(caseID) {
			return
		}
		g := rng(r, "c12", i)
		trace := []string{}
		scen := map[string]any{"trace": &trace}
		guard(r, caseID, scen, func() {
			ourNet := uint32([]int{1, 2, 5}[g.Intn(3)])
			open := func(kind string) *store {
				s, err := newStore(kind, "c12")
				if err != nil {
					panic(err)
				}
				return s
			}
			sL1, sL2, sInfo, sGER := open("bridge"), open("bridge"), open("l1info"), open("ger")
			defer sL1.Close()
			defer sL2.Close()
			defer sInfo.Close()
			defer sGER.Close()
			// reference state
			var l1Deps, l2Deps []*bridgesync.Bridge
			var frL1, frL2 ref.Frontier
			l1Roots := map[common.Hash]int{} // root -> #deposits covered
			l2Roots := map[common.Hash]int{}
			ret := ref.NewSparseTree()
			curExit := map[uint32]common.Hash{}
			var infos []c12Info
			l1Block, l2Block := uint64(10), uint64(100)
			lastVerifiedL2 := 0
			steps := 20 + g.Intn(maxSteps)
			var pendingL1 []any  // events of the L1 block being built (l1info store)
			var pendingL1B []any // bridge events of the L1 block being built
			pos := uint64(0)
			flushL1 := func() {
				if len(pendingL1) == 0 && len(pendingL1B) == 0 {
					return
				}
				h := world.BlockHash(1, l1Block)
				if err := sInfo.Process(aggsync.Block{Num: l1Block, Hash: h, Events: pendingL1}); err != nil {
					panic(fmt.Sprintf("l1info ProcessBlock(%d): %v", l1Block, err))
				}
				if err := sL1.Process(aggsync.Block{Num: l1Block, Hash: h, Events: pendingL1B}); err != nil {
					panic(fmt.Sprintf("bridge L1 ProcessBlock(%d): %v", l1Block, err))
				}
				pendingL1, pendingL1B = nil, nil
				l1Block += uint64(1 + g.Intn(3))
				pos = 0
			}
			curMER := common.Hash{}
			type retEntry struct {
				block uint64
				ver   int
				upTo  int // lastVerifiedL2 after this entry (our rollup), -1 for other rollups
			}
			var retLog []retEntry
			addInfo := func() {
				rer := ret.Last()
				if ret.Versions() == 0 {
					rer = common.Hash{}
				}
				// the contract only adds a leaf when the GER is new
				for _, in := range infos {
					if in.mer == curMER && in.rer == rer {
						return
					}
				}
				in := c12Info{idx: uint32(len(infos)), mer: curMER, rer: rer, merCount: l1Roots[curMER], block: l1Block}
				if rer != (common.Hash{}) {
					in.ler = ret.LeafAt(ret.Versions(), ourNet-1)
					in.lerCount = l2Roots[in.ler]
				}
				infos = append(infos, in)
				pendingL1 = append(pendingL1, l1infotreesync.Event{UpdateL1InfoTree: &l1infotreesync.UpdateL1InfoTree{
					BlockPosition: pos, MainnetExitRoot: curMER, RollupExitRoot: rer, ParentHash: world.BlockHash(1, l1Block-1), Timestamp: 1_700_000_000 + l1Block}})
				pos++
			}
			stepNo := 0
			runSteps := func(count int) {
				for k := 0; k < count; k++ {
					st := stepNo
					stepNo++
					switch g.Intn(10) {
					case 0, 1, 2: // L1 deposit (optionally with GER update)
						d := world.RandBridge(g, uint32(len(l1Deps)))
						d.OriginNetwork, d.BlockNum, d.BlockPos = 0, l1Block, pos
						pos++
						l1Deps = append(l1Deps, d)
						frL1.Add(world.BridgeLeafOf(d))
						l1Roots[frL1.Root()] = len(l1Deps)
						pendingL1B = append(pendingL1B, bridgesync.Event{Bridge: d})
						if g.Intn(2) == 0 {
							curMER = frL1.Root()
							addInfo()
						}
					case 3, 4, 5: // L2 deposit, own block
						d := world.RandBridge(g, uint32(len(l2Deps)))
						d.OriginNetwork, d.BlockNum, d.BlockPos = ourNet, l2Block, 0
						l2Deps = append(l2Deps, d)
						frL2.Add(world.BridgeLeafOf(d))
						l2Roots[frL2.Root()] = len(l2Deps)
						if err := sL2.Process(aggsync.Block{Num: l2Block, Hash: world.BlockHash(2, l2Block), Events: []any{bridgesync.Event{Bridge: d}}}); err != nil {
							panic(fmt.Sprintf("bridge L2 ProcessBlock(%d): %v", l2Block, err))
						}
						l2Block += uint64(1 + g.Intn(3))
					case 6: // verification of our rollup with its current LER (if it moved)
						if len(l2Deps) > lastVerifiedL2 {
							upTo := lastVerifiedL2 + 1 + g.Intn(len(l2Deps)-lastVerifiedL2)
							var fr ref.Frontier
							for _, d := range l2Deps[:upTo] {
								fr.Add(world.BridgeLeafOf(d))
							}
							exit := fr.Root()
							lastVerifiedL2 = upTo
							ret.Set(ourNet-1, exit)
							retLog = append(retLog, retEntry{l1Block, ret.Versions(), upTo})
							curExit[ourNet] = exit
							pendingL1 = append(pendingL1, l1infotreesync.Event{VerifyBatches: &l1infotreesync.VerifyBatches{BlockPosition: pos, RollupID: ourNet,
								NumBatch: uint64(st), StateRoot: world.RandHash(g), ExitRoot: exit, Aggregator: world.RandAddr(g)}})
							pos++
							addInfo() // the rollup manager updates the GER
						}
					case 7: // verification of another rollup
						id := uint32([]int{3, 4, 9}[g.Intn(3)])
						if id == ourNet {
							id++
						}
						exit := world.RandHash(g)
						ret.Set(id-1, exit)
						retLog = append(retLog, retEntry{l1Block, ret.Versions(), -1})
						curExit[id] = exit
						pendingL1 = append(pendingL1, l1infotreesync.Event{VerifyBatches: &l1infotreesync.VerifyBatches{BlockPosition: pos, RollupID: id,
							NumBatch: uint64(st), StateRoot: world.RandHash(g), ExitRoot: exit, Aggregator: world.RandAddr(g)}})
						pos++
						addInfo()
					case 8: // GER update from the bridge with the current mainnet root
						if len(l1Deps) > 0 {
							curMER = frL1.Root()
							addInfo()
						}
					default:
						flushL1()
					}
					if g.Intn(3) == 0 {
						flushL1()
					}
				}
			}
			runSteps(steps)
			flushL1()
			// injected GERs on L2: a subset of the leaves, in order
			injected := map[uint32]bool{}
			gb := uint64(500)
			for _, in := range infos {
				if g.Intn(3) != 0 {
					continue
				}
				ger := ref.GER(in.mer, in.rer)
				if err := sGER.Process(aggsync.Block{Num: gb, Hash: world.BlockHash(3, gb), Events: []any{&lastgersync.Event{GEREvent: &lastgersync.GEREvent{BlockNum: gb, GlobalExitRoot: ger, L1InfoTreeIndex: in.idx}}}}); err != nil {
					panic(fmt.Sprintf("ger ProcessBlock: %v", err))
				}
				injected[in.idx] = true
				gb++
			}
			trace = append(trace, fmt.Sprintf("network %d: %d L1 deposits, %d L2 deposits, %d L1 info leaves, %d injected", ourNet, len(l1Deps), len(l2Deps), len(infos), len(injected)))
			svc := bridgeservice.New(&bridgeservice.Config{Logger: log.WithFields("m", "c12"), NetworkID: ourNet, ReadTimeout: 20 * time.Second, WriteTimeout: 20 * time.Second},
				sInfo.Facade.(*l1infotreesync.L1InfoTreeSync), sGER.Facade.(*lastgersync.LastGERSync), sL1.Facade.(*bridgesync.BridgeSync), sL2.Facade.(*bridgesync.BridgeSync))

			check := func(net uint32, d int, deps []*bridgesync.Bridge) bool {
				kind := "mainnet"
				if net != 0 {
					kind = "rollup"
				}
				leaf := world.BridgeLeafOf(deps[d])
				firstCover := -1
				for _, in := range infos {
					covers := (net == 0 && in.merCount > d) || (net != 0 && in.lerCount > d)
					if !covers {
						continue
					}
					if firstCover < 0 {
						firstCover = int(in.idx)
					}
					code, body := c12Get(svc.ClaimProofHandler, fmt.Sprintf("network_id=%d&leaf_index=%d&deposit_count=%d", net, in.idx, d))
					if code != http.StatusOK {
						r.Violation("C12:"+kind+":claim-proof-refused-for-covering-leaf", caseID, fmt.Sprintf("/claim-proof(network %d, leaf %d, deposit %d) = %d %s", net, in.idx, d, code, clip(string(body), 200)), scen)
						return false
					}
					var cp bridgetypes.ClaimProof
					if err := json.Unmarshal(body, &cp); err != nil {
						r.Violation("C12:"+kind+":claim-proof-unparsable", caseID, err.Error(), scen)
						return false
					}
					pl := proofOf(cp.ProofLocalExitRoot)
					if net == 0 {
						if got := ref.VerifyProof(leaf, pl, uint32(d)); got != in.mer {
							r.Violation("C12:mainnet:local-proof-does-not-reach-mainnet-exit-root", caseID,
								fmt.Sprintf("deposit %d with L1 info leaf %d: proof hashes to %s, mainnet exit root of the leaf is %s", d, in.idx, got.Hex(), in.mer.Hex()), scen)
							return false
						}
					} else {
						if got := ref.VerifyProof(leaf, pl, uint32(d)); got != in.ler {
							r.Violation("C12:rollup:local-proof-does-not-reach-local-exit-root", caseID,
								fmt.Sprintf("deposit %d with L1 info leaf %d: proof hashes to %s, local exit root under the leaf's rollup exit root is %s", d, in.idx, got.Hex(), in.ler.Hex()), scen)
							return false
						}
						if got := ref.VerifyProof(in.ler, proofOf(cp.ProofRollupExitRoot), net-1); got != in.rer {
							r.Violation("C12:rollup:rollup-proof-does-not-reach-rollup-exit-root", caseID,
								fmt.Sprintf("deposit %d with L1 info leaf %d: rollup proof hashes to %s, rollup exit root of the leaf is %s", d, in.idx, got.Hex(), in.rer.Hex()), scen)
							return false
						}
					}
					if common.HexToHash(string(cp.L1InfoTreeLeaf.MainnetExitRoot)) != in.mer || common.HexToHash(string(cp.L1InfoTreeLeaf.RollupExitRoot)) != in.rer || cp.L1InfoTreeLeaf.L1InfoTreeIndex != in.idx {
						r.Violation("C12:"+kind+":claim-proof-names-other-leaf", caseID, fmt.Sprintf("/claim-proof for leaf %d returns leaf %+v", in.idx, cp.L1InfoTreeLeaf), scen)
						return false
					}
					r.Add("claim_proofs_verified", 1)
				}
				// the index lookup
				code, body := c12Get(svc.L1InfoTreeIndexForBridgeHandler, fmt.Sprintf("network_id=%d&deposit_count=%d", net, d))
				outcome := "refusal"
				dist := 0
				if code == http.StatusOK {
					var idx uint32
					if err := json.Unmarshal(body, &idx); err != nil || int(idx) >= len(infos) {
						r.Violation("C12:"+kind+":index-lookup-unparsable", caseID, fmt.Sprintf("%s (%v)", clip(string(body), 100), err), scen)
						return false
					}
					in := infos[idx]
					covers := (net == 0 && in.merCount > d) || (net != 0 && in.lerCount > d)
					if !covers {
						r.Violation("C12:"+kind+":index-lookup-returns-non-covering-index", caseID,
							fmt.Sprintf("/l1-info-tree-index(network %d, deposit %d) = %d, whose exit roots cover only %d deposits (first covering index: %d)", net, d, idx,
								map[bool]int{true: in.merCount, false: in.lerCount}[net == 0], firstCover), scen)
						return false
					}
					outcome = "hit"
					dist = int(idx) - firstCover
				} else if firstCover >= 0 {
					r.Add("index_lookup_refusals_while_covering_index_existed", 1)
				}
				perBlock := 0
				if firstCover >= 0 {
					for _, in := range infos {
						if in.block == infos[firstCover].block {
							perBlock++
						}
					}
				}
				r.Eval(fmt.Sprintf("%s/updates-in-block=%d/%s/dist=%d", kind, min(perBlock, 3), outcome, min(dist, 3)))
				return true
			}
			for d := range l1Deps {
				if !check(0, d, l1Deps) {
					return
				}
			}
			for d := range l2Deps {
				if !check(ourNet, d, l2Deps) {
					return
				}
			}
			// injected leaf lookup
			for x := uint32(0); x <= uint32(len(infos)); x++ {
				code, body := c12Get(svc.InjectedL1InfoLeafHandler, fmt.Sprintf("network_id=%d&leaf_index=%d", ourNet, x))
				exists := false
				for k := range injected {
					if k >= x {
						exists = true
					}
				}
				if code == http.StatusOK {
					var lf bridgetypes.L1InfoTreeLeafResponse
					if err := json.Unmarshal(body, &lf); err != nil {
						r.Violation("C12:injected-leaf-unparsable", caseID, err.Error(), scen)
						return
					}
					if !injected[lf.L1InfoTreeIndex] || lf.L1InfoTreeIndex < x {
						r.Violation("C12:injected-leaf-wrong", caseID, fmt.Sprintf("/injected-l1-info-leaf(leaf_index=%d) returns leaf %d (injected=%v)", x, lf.L1InfoTreeIndex, injected[lf.L1InfoTreeIndex]), scen)
						return
					}
					r.Eval("injected/hit")
				} else if exists {
					r.Violation("C12:injected-leaf-refused", caseID, fmt.Sprintf("/injected-l1-info-leaf(leaf_index=%d) = %d although an injected leaf with index >= %d exists", x, code, x), scen)
					return
				} else {
					r.Eval("injected/none")
				}
			}
			// ---- phase 2: an L1 reorg while the same service object keeps running -----------------------
			// (every lookup above has been answered once, so anything the service remembered is warm)
			if i%2 == 0 && len(infos) >= 4 {
				k := len(infos)/2 + g.Intn(len(infos)-len(infos)/2)
				b := infos[k].block
				if err := sInfo.Reorg(b); err != nil {
					panic(fmt.Sprintf("l1info Reorg(%d): %v", b, err))
				}
				if err := sL1.Reorg(b); err != nil {
					panic(fmt.Sprintf("bridge L1 Reorg(%d): %v", b, err))
				}
				// reference: drop everything of L1 blocks >= b
				var keep []c12Info
				for _, in := range infos {
					if in.block < b {
						keep = append(keep, in)
					}
				}
				infos = keep
				var keepDeps []*bridgesync.Bridge
				frL1 = ref.Frontier{}
				l1Roots = map[common.Hash]int{}
				for _, d := range l1Deps {
					if d.BlockNum < b {
						keepDeps = append(keepDeps, d)
						frL1.Add(world.BridgeLeafOf(d))
						l1Roots[frL1.Root()] = len(keepDeps)
					}
				}
				l1Deps = keepDeps
				ver, verified := 0, 0
				var keepLog []retEntry
				for _, e := range retLog {
					if e.block < b {
						keepLog = append(keepLog, e)
						ver = e.ver
						if e.upTo > verified {
							verified = e.upTo
						}
					}
				}
				retLog = keepLog
				ret.Truncate(ver)
				lastVerifiedL2 = verified
				curMER = common.Hash{}
				if len(infos) > 0 {
					curMER = infos[len(infos)-1].mer
				}
				pendingL1, pendingL1B, pos = nil, nil, 0
				l1Block = b
				trace = append(trace, fmt.Sprintf("L1 reorg from block %d: %d L1 deposits and %d L1 info leaves survive; the chain continues differently", b, len(l1Deps), len(infos)))
				runSteps(12 + g.Intn(25))
				flushL1()
				for d := range l1Deps {
					if !check(0, d, l1Deps) {
						return
					}
				}
				for d := range l2Deps {
					if !check(ourNet, d, l2Deps) {
						return
					}
				}
				r.Cover("after-l1-reorg/lookups-repeated-on-the-same-service")
			}
			if i < 3 {
				r.Sample(map[string]any{"trace": trace})
			}
		})
	})
	finish(t, r, r.N(12, 20), "mainnet/*", "rollup/*", "injected/hit", "after-l1-reorg/*")
}
