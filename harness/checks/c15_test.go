package checks

import (
	"context"
	"errors"
	"fmt"
	"math/big"
	"math/rand"
	"runtime"
	"sync"
	"testing"
	"time"

	"github.com/agglayer/aggkit/aggoracle"
	"github.com/agglayer/aggkit/l1infotreesync"
	"github.com/agglayer/aggkit/log"
	aggsync "github.com/agglayer/aggkit/sync"
	aggkittypes "github.com/agglayer/aggkit/types"
	"github.com/ethereum/go-ethereum"
	"github.com/ethereum/go-ethereum/common"
	"github.com/ethereum/go-ethereum/core/types"
	"verifharness/mon"
	"verifharness/world"
)

// C15 — the GER oracle injects only finalized, current, not-yet-present roots.
//
// The real aggoracle.New(...).Start loop (1 ms ticker) runs against: a fake L1 ChainReader whose
// finality answer follows the schedule, the REAL L1 info store (fed by the harness at a scheduled
// pace: behind / level with / ahead of the finalized block) behind a recording wrapper, and a fake
// chain sender whose injected set is authoritative. All dependency calls come from the oracle's
// single goroutine, so the environment is stepped inside them: one tick = one logical step.

type c15Cfg struct {
	Ticks    int  `json:"ticks"`
	Lag      int  `json:"syncer_lag_blocks"` // syncer stays this many blocks behind the finalized block (-k: ahead by k)
	LeafGap  int  `json:"new_leaf_every_n_blocks"`
	ErrPct   int  `json:"dependency_error_pct"`
	Burst    bool `json:"syncer_stalls_then_catches_up"`
	Grow     int  `json:"l1_blocks_per_tick"`
	FinalLag int  `json:"finality_lag_blocks"`
	// FailLastInject: in the last 30 ticks one more leaf appears and then none; the first injection
	// attempt of that phase fails (sender error). A failed injection must be tried again.
	FailLastInject bool `json:"first_injection_of_the_quiet_end_phase_fails"`
	// MultiLeaf: some L1 blocks carry two info-tree updates (the later one is the most recent root)
	MultiLeaf bool `json:"blocks_with_two_updates"`
}

type c15Env struct {
	mu  sync.Mutex
	g   *rand.Rand
	cfg c15Cfg
	st  *store
	// L1 model
	head, finalized uint64
	leaves          []c15Leaf // leaves of the L1 history, in order (block ascending)
	nextBlock       uint64    // next block number the syncer will process
	pendingEvents   map[uint64][]any
	// observations
	ticks          int
	sampled        map[uint64]bool // blocks ever returned by the finality query
	lastQueried    uint64
	lastQueryOK    bool
	lastIsInj      *common.Hash
	lastIsInjRes   bool
	quietLeafDone  bool
	failNextInject bool
	injected       map[common.Hash]bool
	injectTicks    []int
	log            []string
	viol           []string
	headerThisTick bool
	frozen         bool
	stall          int
}

type c15Leaf struct {
	block uint64
	ger   common.Hash
}

func (e *c15Env) note(f string, a ...any) {
	if len(e.log) < 4000 {
		e.log = append(e.log, fmt.Sprintf("t%d ", e.ticks)+fmt.Sprintf(f, a...))
	}
}

// step advances the environment by one tick
func (e *c15Env) step() {
	e.ticks++
	g := e.g
	if e.frozen {
		// the chain stands still, the syncer catches up completely
		for e.nextBlock <= e.head {
			e.process(e.nextBlock)
		}
		return
	}
	// L1 grows
	for k := 0; k < e.cfg.Grow; k++ {
		e.head++
		quiet := e.cfg.FailLastInject && e.ticks > e.cfg.Ticks-30
		leafNow := e.cfg.LeafGap > 0 && int(e.head)%e.cfg.LeafGap == 0
		if quiet {
			leafNow = !e.quietLeafDone
			e.quietLeafDone = true
			if leafNow {
				e.failNextInject = true
			}
		}
		if leafNow {
			nUpd := 1
			if e.cfg.MultiLeaf && g.Intn(2) == 0 {
				nUpd = 2
			}
			var evs []any
			for u := 0; u < nUpd; u++ {
				mer, rer := world.RandHash(g), world.RandHash(g)
				evs = append(evs, l1infotreesync.Event{UpdateL1InfoTree: &l1infotreesync.UpdateL1InfoTree{BlockPosition: uint64(3 * u), MainnetExitRoot: mer, RollupExitRoot: rer,
					ParentHash: world.BlockHash(1, e.head-1), Timestamp: 1_700_000_000 + e.head}})
				e.leaves = append(e.leaves, c15Leaf{block: e.head, ger: world.GERof(mer, rer)})
			}
			e.pendingEvents[e.head] = evs
		}
	}
	if e.head > uint64(e.cfg.FinalLag) {
		e.finalized = e.head - uint64(e.cfg.FinalLag)
	}
	// the syncer follows at its scheduled distance from the finalized block
	target := int64(e.finalized) - int64(e.cfg.Lag)
	if e.cfg.Burst {
		if e.stall > 0 {
			e.stall--
			return
		}
		if g.Intn(12) == 0 {
			e.stall = 3 + g.Intn(10)
			return
		}
	}
	if target > int64(e.head) {
		target = int64(e.head)
	}
	for int64(e.nextBlock) <= target {
		e.process(e.nextBlock)
	}
}

func (e *c15Env) process(num uint64) {
	if err := e.st.Process(aggsync.Block{Num: num, Hash: world.BlockHash(1, num), Events: e.pendingEvents[num]}); err != nil {
		e.viol = append(e.viol, fmt.Sprintf("harness: L1 info store refused block %d: %v", num, err))
	}
	e.nextBlock = num + 1
}

func (e *c15Env) latestLeafUntil(b uint64) (common.Hash, bool) {
	var out common.Hash
	ok := false
	for _, l := range e.leaves {
		if l.block <= b {
			out, ok = l.ger, true
		}
	}
	return out, ok
}

// --- fake L1 client (only HeaderByNumber is used by the oracle) ---
type c15L1 struct {
	ethereum.ChainReader
	e *c15Env
}

func (c *c15L1) HeaderByNumber(ctx context.Context, number *big.Int) (*types.Header, error) {
	e := c.e
	e.mu.Lock()
	defer e.mu.Unlock()
	e.step()
	e.headerThisTick = true
	if number == nil || number.Int64() != -3 {
		e.viol = append(e.viol, fmt.Sprintf("finality query asks for %v, configured finality is FinalizedBlock", number))
	}
	if e.g.Intn(100) < e.cfg.ErrPct {
		e.note("finality query -> injected error")
		return nil, errors.New("injected L1 client error")
	}
	e.sampled[e.finalized] = true
	e.note("finality query -> %d (head %d, syncer at %d)", e.finalized, e.head, e.nextBlock-1)
	return &types.Header{Number: new(big.Int).SetUint64(e.finalized)}, nil
}

// --- recording wrapper around the real L1 info store ---
type c15Info struct {
	e    *c15Env
	real *l1infotreesync.L1InfoTreeSync
}

func (w *c15Info) GetLatestInfoUntilBlock(ctx context.Context, blockNum uint64) (*l1infotreesync.L1InfoTreeLeaf, error) {
	e := w.e
	e.mu.Lock()
	if !e.headerThisTick {
		e.step() // a tick that re-uses its sticky target does not ask for the finalized block
		e.note("no finality query (sticky target %d)", blockNum)
	}
	e.headerThisTick = false
	if !e.sampled[blockNum] {
		e.viol = append(e.viol, fmt.Sprintf("info query until block %d, which was never an answer of the finality query", blockNum))
	}
	inject := e.g.Intn(100) < e.cfg.ErrPct
	e.lastQueried, e.lastQueryOK = blockNum, false
	e.mu.Unlock()
	if inject {
		return nil, errors.New("injected syncer error")
	}
	leaf, err := w.real.GetLatestInfoUntilBlock(ctx, blockNum)
	e.mu.Lock()
	defer e.mu.Unlock()
	e.lastQueryOK = err == nil
	if err != nil {
		e.note("info until %d -> %v", blockNum, err)
	} else {
		e.note("info until %d -> leaf %d", blockNum, leaf.L1InfoTreeIndex)
	}
	return leaf, err
}

// --- fake chain sender ---
type c15Sender struct{ e *c15Env }

func (s *c15Sender) IsGERInjected(ger common.Hash) (bool, error) {
	e := s.e
	e.mu.Lock()
	defer e.mu.Unlock()
	if e.g.Intn(100) < e.cfg.ErrPct {
		e.lastIsInj = nil
		return false, errors.New("injected sender error")
	}
	res := e.injected[ger]
	e.lastIsInj, e.lastIsInjRes = &ger, res
	return res, nil
}

func (s *c15Sender) InjectGER(ctx context.Context, ger common.Hash) error {
	e := s.e
	e.mu.Lock()
	defer e.mu.Unlock()
	// safety clauses, judged at the moment of the injection
	want, ok := e.latestLeafUntil(e.lastQueried)
	switch {
	case !e.lastQueryOK:
		e.viol = append(e.viol, fmt.Sprintf("tick %d: InjectGER(%s) without a successful info query in this tick", e.ticks, ger.Hex()[:10]))
	case !ok || ger != want:
		e.viol = append(e.viol, fmt.Sprintf("tick %d: InjectGER(%s) but the most recent root at or below the sampled finalized block %d is %s", e.ticks, ger.Hex()[:10], e.lastQueried, want.Hex()[:10]))
	}
	if e.lastIsInj == nil || *e.lastIsInj != ger || e.lastIsInjRes {
		e.viol = append(e.viol, fmt.Sprintf("tick %d: InjectGER(%s) not immediately preceded by IsGERInjected(same) = false", e.ticks, ger.Hex()[:10]))
	}
	if e.injected[ger] {
		e.viol = append(e.viol, fmt.Sprintf("tick %d: InjectGER(%s) but the L2 contract already has it", e.ticks, ger.Hex()[:10]))
	}
	e.lastIsInj = nil
	if e.failNextInject {
		e.failNextInject = false
		e.note("inject %s -> injected error (first attempt of the quiet end phase)", ger.Hex()[:10])
		return errors.New("injected sender error")
	}
	if e.g.Intn(100) < e.cfg.ErrPct {
		e.note("inject %s -> injected error", ger.Hex()[:10])
		return errors.New("injected sender error")
	}
	e.injected[ger] = true
	e.injectTicks = append(e.injectTicks, e.ticks)
	e.note("inject %s", ger.Hex()[:10])
	return nil
}

func c15Run(r *mon.Run, caseID string, g *rand.Rand, cfg c15Cfg) {
	scen := map[string]any{"config": cfg}
	guard(r, caseID, scen, func() {
		st, err := newStore("l1info", "c15")
		if err != nil {
			r.Inconclusive("cannot open store: " + err.Error())
			return
		}
		defer st.Close()
		e := &c15Env{g: g, cfg: cfg, st: st, nextBlock: 1, pendingEvents: map[uint64][]any{}, sampled: map[uint64]bool{}, injected: map[common.Hash]bool{}}
		or, err := aggoracle.New(log.WithFields("m", "c15"), &c15Sender{e}, &c15L1{e: e}, &c15Info{e: e, real: st.Facade.(*l1infotreesync.L1InfoTreeSync)},
			aggkittypes.FinalizedBlock, 200*time.Microsecond)
		if err != nil {
			r.Inconclusive("cannot build the oracle: " + err.Error())
			return
		}
		ctx, cancel := context.WithCancel(context.Background())
		done := make(chan struct{})
		go func() { or.Start(ctx); close(done) }()
		waitTicks := func(n int) bool {
			deadline := time.Now().Add(60 * time.Second)
			for time.Now().Before(deadline) {
				e.mu.Lock()
				t := e.ticks
				e.mu.Unlock()
				if t >= n {
					return true
				}
				time.Sleep(200 * time.Microsecond)
			}
			return false
		}
		if !waitTicks(cfg.Ticks) {
			cancel()
			<-done
			r.Inconclusive("the oracle loop did not reach the planned number of ticks within the watchdog")
			return
		}
		// the environment freezes: no new L1 blocks, the syncer catches up, no more injected errors
		e.mu.Lock()
		e.frozen = true
		e.cfg.ErrPct = 0
		tFreeze := e.ticks
		e.mu.Unlock()
		waitTicks(tFreeze + 8)
		cancel()
		<-done
		e.mu.Lock()
		defer e.mu.Unlock()
		tail := e.log
		if len(tail) > 160 {
			tail = tail[len(tail)-160:]
		}
		scen["log_tail"] = tail
		if len(e.viol) > 0 {
			sig := "C15:safety"
			switch {
			case contains(e.viol[0], "most recent root"):
				sig = "C15:injected-root-not-most-recent-finalized"
			case contains(e.viol[0], "already has it"), contains(e.viol[0], "IsGERInjected"):
				sig = "C15:injects-root-already-present-or-unchecked"
			case contains(e.viol[0], "never an answer"):
				sig = "C15:info-query-for-unsampled-block"
			}
			r.Violation(sig, caseID, fmt.Sprintf("%d safety violations; first: %s", len(e.viol), e.viol[0]), scen)
			return
		}
		// bounded progress 1: once everything stands still and the syncer has caught up, the most
		// recent finalized root must be on L2 within a few ticks
		if want, ok := e.latestLeafUntil(e.finalized); ok && !e.injected[want] {
			r.Violation("C15:progress:latest-finalized-root-never-injected-after-catch-up", caseID,
				fmt.Sprintf("8 ticks after the chain stopped and the syncer caught up, the most recent finalized root (block <= %d) is still not injected; %d injections in %d ticks", e.finalized, len(e.injectTicks), e.ticks), scen)
			return
		}
		// bounded progress 2: while new finalized roots keep appearing and the syncer keeps its
		// distance, injections keep happening
		if cfg.LeafGap > 0 && cfg.Lag >= 0 && !cfg.Burst && cfg.ErrPct == 0 {
			lagTicks := (cfg.Lag + cfg.Grow - 1) / max(cfg.Grow, 1)
			leafTicks := (cfg.LeafGap + cfg.Grow - 1) / max(cfg.Grow, 1)
			window := 2*(lagTicks+leafTicks) + 6
			first := (cfg.FinalLag+cfg.LeafGap)/max(cfg.Grow, 1) + 2 // a finalized leaf cannot appear before
			prev := first
			worst := 0
			tEnd := tFreeze
			if cfg.FailLastInject {
				tEnd = min(tFreeze, cfg.Ticks-30) // no new roots appear in the quiet end phase
			}
			for _, t := range append(append([]int{}, e.injectTicks...), tEnd) {
				if t > tEnd {
					t = tEnd
				}
				if t-prev > worst {
					worst = t - prev
				}
				prev = t
			}
			if tEnd > window+first && worst > window {
				cls := "syncer-level"
				if cfg.Lag > 0 {
					cls = "syncer-stays-behind-finality"
				}
				r.Violation("C15:progress:starved-while-finalized-roots-keep-appearing:"+cls, caseID,
					fmt.Sprintf("no injection for %d consecutive ticks (bound %d) although a new finalized root appears every %d ticks and the syncer stays %d blocks behind the finalized block; %d injections in %d ticks",
						worst, window, leafTicks, cfg.Lag, len(e.injectTicks), tFreeze), scen)
				return
			}
		}
		lagc := "level"
		if cfg.Lag > 0 {
			lagc = "behind"
		} else if cfg.Lag < 0 {
			lagc = "ahead"
		}
		r.Eval(fmt.Sprintf("lag=%s(%d)/leafgap=%d/err=%v/burst=%v/grow=%d/inj=%d", lagc, cfg.Lag, cfg.LeafGap, cfg.ErrPct > 0, cfg.Burst, cfg.Grow, min(len(e.injectTicks)/10, 3)))
		r.Add("injections_observed", len(e.injectTicks))
		r.Add("ticks_observed", e.ticks)
		if len(e.injectTicks) > 0 {
			r.Sample(map[string]any{"config": cfg, "ticks": e.ticks, "injections": len(e.injectTicks), "log_head": e.log[:min(len(e.log), 12)]})
		}
	})
}

func contains(s, sub string) bool {
	return len(s) >= len(sub) && (func() bool {
		for i := 0; i+len(sub) <= len(s); i++ {
			if s[i:i+len(sub)] == sub {
				return true
			}
		}
		return false
	})()
}

func TestC15(t *testing.T) {
	r := mon.Start("C15", "exploration")
	r.Rule("schedules: syncer lag L in {-5 (ahead), 0, 1, 2, 5, 20} blocks relative to the finalized block, a new L1 info leaf every 1..7 blocks, 1-3 L1 blocks per oracle tick, finality lag, " +
		"transient errors of each dependency (0-20 %), bursts where the syncer stalls and catches up; every InjectGER is judged at the moment it happens, progress is judged in ticks; " +
		"signature = (lag class, leaf gap, errors, burst, growth, #injections class)")
	r.Assume("liveness ('keeps injecting') is restated as bounded progress in oracle ticks: an injection within 2*(lag+leaf period)+6 ticks in error-free schedules (with injected dependency errors only the final clause is judged: errors may delay but not suppress), and the latest finalized root on L2 within 8 ticks after everything stands still")
	n := r.N(60, 3000)
	ticks := r.N(150, 400)
	parallel(n, runtime.NumCPU(), func(i int) {
		caseID := fmt.Sprintf("sched/%d", i)
		if !r.Only(caseID) {
			return
		}
		g := rng(r, "c15", i)
		cfg := c15Cfg{Ticks: ticks, Lag: []int{-5, 0, 1, 2, 5, 20}[g.Intn(6)], LeafGap: 1 + g.Intn(7), ErrPct: []int{0, 0, 5, 20}[g.Intn(4)],
			Burst: g.Intn(4) == 0, Grow: 1 + g.Intn(3), FinalLag: []int{0, 2, 10}[g.Intn(3)], FailLastInject: i%3 == 0, MultiLeaf: i%2 == 0}
		c15Run(r, caseID, g, cfg)
	})
	finish(t, r, r.N(20, 60), "lag=behind*", "lag=level*", "lag=ahead*")
}
