// Package faultdb is a database/sql driver that wraps the mattn sqlite3 driver and lets the
// harness observe and fail individual statements: every Exec / Query / Commit issued on a
// connection is counted by a Controller, and the k-th one after arming returns an error instead
// of being executed (a failing Commit rolls the transaction back first, like a real failed
// commit). This is the statement-level fault plane of C07 / C13; it also covers *reads*, which
// SQL triggers cannot fail.
package faultdb

import (
	"context"
	"database/sql"
	"database/sql/driver"
	"errors"
	"fmt"
	"strings"
	"sync"
	"sync/atomic"

	sqlite3 "github.com/mattn/go-sqlite3"
)

// ErrFault is the injected error
var ErrFault = errors.New("verif injected storage fault")

// Controller counts statements and decides which one fails
type Controller struct {
	mu         sync.Mutex
	armed      bool
	count      int // statements seen since arming
	failAt     int // 1-based index of the statement to fail (0 = none)
	fired      bool
	log        []string // statements seen since arming (kind + first words)
	keepLog    bool
	onlyInTx   bool // count only statements issued inside an explicit transaction (and its commit)
	failCommit bool // fail the next commit (whatever its index)
	delay      func(kind, query string)
	arms       int // number of times the controller was armed: rotates the kind of the injected error
}

// faultKinds: what the injected error looks like to the caller. Besides the opaque ErrFault these
// are real go-sqlite3 error values as SQLite produces them for an I/O error, a full disk, a busy
// database and a statement aborted by a constraint other than a duplicate key (RAISE(ABORT) in a
// trigger, NOT NULL, CHECK): none of them may be mistaken for success or for "row already there".
var faultKinds = []error{
	ErrFault,
	sqlite3.Error{Code: sqlite3.ErrIoErr, ExtendedCode: sqlite3.ErrIoErrWrite},
	sqlite3.Error{Code: sqlite3.ErrFull},
	sqlite3.Error{Code: sqlite3.ErrConstraint, ExtendedCode: sqlite3.ErrConstraintTrigger},
	sqlite3.Error{Code: sqlite3.ErrBusy},
	sqlite3.Error{Code: sqlite3.ErrConstraint, ExtendedCode: sqlite3.ErrConstraintNotNull},
}

// KindsInjected counts the injected errors per kind (evidence)
var KindsInjected [6]atomic.Int64

func (c *Controller) fault(kind string) error {
	c.mu.Lock()
	k := c.arms % len(faultKinds)
	c.mu.Unlock()
	if kind != "exec" && (k == 3 || k == 5) {
		k = 1 // a read or a COMMIT does not fail with a constraint error
	}
	KindsInjected[k].Add(1)
	return faultKinds[k]
}

var controllers sync.Map // name -> *Controller

// Arm starts counting; the failAt-th statement from now fails (0: only count)
func (c *Controller) Arm(failAt int, keepLog bool) {
	c.mu.Lock()
	c.armed, c.count, c.failAt, c.fired, c.log, c.keepLog = true, 0, failAt, false, nil, keepLog
	c.arms++
	c.mu.Unlock()
}

// ArmCommit makes the next COMMIT fail (the transaction is rolled back), whatever its index
func (c *Controller) ArmCommit() {
	c.mu.Lock()
	c.armed, c.count, c.failAt, c.fired, c.log, c.keepLog, c.failCommit = true, 0, 0, false, nil, false, true
	c.arms++
	c.mu.Unlock()
}

// OnlyInTx restricts counting to statements inside explicit transactions
func (c *Controller) OnlyInTx(b bool) { c.mu.Lock(); c.onlyInTx = b; c.mu.Unlock() }

// Disarm stops counting and returns (#statements seen, whether the fault fired, log)
func (c *Controller) Disarm() (int, bool, []string) {
	c.mu.Lock()
	defer c.mu.Unlock()
	c.armed = false
	c.failCommit = false
	return c.count, c.fired, c.log
}

// SetDelay installs a function called before every statement (to widen interleavings)
func (c *Controller) SetDelay(f func(kind, query string)) { c.mu.Lock(); c.delay = f; c.mu.Unlock() }

func short(q string) string {
	q = strings.Join(strings.Fields(q), " ")
	if len(q) > 60 {
		q = q[:60]
	}
	return q
}

// step is called for every statement; returns true if it must fail
func (c *Controller) step(kind, query string, inTx bool) bool {
	c.mu.Lock()
	d := c.delay
	if !c.armed || (c.onlyInTx && !inTx) {
		c.mu.Unlock()
		if d != nil {
			d(kind, query)
		}
		return false
	}
	c.count++
	if c.keepLog {
		c.log = append(c.log, kind+" "+short(query))
	}
	fail := c.failAt != 0 && c.count == c.failAt
	if c.failCommit && kind == "commit" {
		fail = true
		c.failCommit = false
	}
	if fail {
		c.fired = true
	}
	c.mu.Unlock()
	if d != nil {
		d(kind, query)
	}
	return fail
}

type drv struct{}

var regOnce sync.Once
var ctrSeq atomic.Int64

// Open opens the SQLite file through the fault driver with the same DSN options the repo uses
// and returns the handle plus its controller.
func Open(path string) (*sql.DB, *Controller, error) {
	regOnce.Do(func() { sql.Register("sqlite3_verif_fault", &drv{}) })
	name := fmt.Sprintf("c%d", ctrSeq.Add(1))
	c := &Controller{}
	controllers.Store(name, c)
	dsn := fmt.Sprintf("%s|file:%s?_txlock=exclusive&_foreign_keys=on&_journal_mode=WAL", name, path)
	dbh, err := sql.Open("sqlite3_verif_fault", dsn)
	return dbh, c, err
}

func (d *drv) Open(dsn string) (driver.Conn, error) {
	parts := strings.SplitN(dsn, "|", 2)
	v, _ := controllers.Load(parts[0])
	inner, err := (&sqlite3.SQLiteDriver{}).Open(parts[1])
	if err != nil {
		return nil, err
	}
	return &conn{inner: inner.(*sqlite3.SQLiteConn), c: v.(*Controller)}, nil
}

type conn struct {
	inner *sqlite3.SQLiteConn
	c     *Controller
	inTx  bool
}

func (c *conn) Prepare(q string) (driver.Stmt, error) {
	return c.PrepareContext(context.Background(), q)
}
func (c *conn) PrepareContext(ctx context.Context, q string) (driver.Stmt, error) {
	s, err := c.inner.PrepareContext(ctx, q)
	if err != nil {
		return nil, err
	}
	return &stmt{inner: s.(*sqlite3.SQLiteStmt), q: q, cn: c}, nil
}
func (c *conn) Close() error { return c.inner.Close() }
func (c *conn) Begin() (driver.Tx, error) {
	return c.BeginTx(context.Background(), driver.TxOptions{})
}
func (c *conn) BeginTx(ctx context.Context, opts driver.TxOptions) (driver.Tx, error) {
	t, err := c.inner.BeginTx(ctx, opts)
	if err != nil {
		return nil, err
	}
	c.inTx = true
	return &tx{inner: t, cn: c}, nil
}
func (c *conn) ExecContext(ctx context.Context, q string, args []driver.NamedValue) (driver.Result, error) {
	if c.c.step("exec", q, c.inTx) {
		return nil, c.c.fault("exec")
	}
	return c.inner.ExecContext(ctx, q, args)
}
func (c *conn) QueryContext(ctx context.Context, q string, args []driver.NamedValue) (driver.Rows, error) {
	if c.c.step("query", q, c.inTx) {
		return nil, c.c.fault("query")
	}
	return c.inner.QueryContext(ctx, q, args)
}
func (c *conn) Ping(ctx context.Context) error { return c.inner.Ping(ctx) }

type stmt struct {
	inner *sqlite3.SQLiteStmt
	q     string
	cn    *conn
}

func (s *stmt) Close() error  { return s.inner.Close() }
func (s *stmt) NumInput() int { return s.inner.NumInput() }
func (s *stmt) Exec(args []driver.Value) (driver.Result, error) {
	if s.cn.c.step("exec", s.q, s.cn.inTx) {
		return nil, s.cn.c.fault("exec")
	}
	return s.inner.Exec(args)
}
func (s *stmt) Query(args []driver.Value) (driver.Rows, error) {
	if s.cn.c.step("query", s.q, s.cn.inTx) {
		return nil, s.cn.c.fault("query")
	}
	return s.inner.Query(args)
}
func (s *stmt) ExecContext(ctx context.Context, args []driver.NamedValue) (driver.Result, error) {
	if s.cn.c.step("exec", s.q, s.cn.inTx) {
		return nil, s.cn.c.fault("exec")
	}
	return s.inner.ExecContext(ctx, args)
}
func (s *stmt) QueryContext(ctx context.Context, args []driver.NamedValue) (driver.Rows, error) {
	if s.cn.c.step("query", s.q, s.cn.inTx) {
		return nil, s.cn.c.fault("query")
	}
	return s.inner.QueryContext(ctx, args)
}

type tx struct {
	inner driver.Tx
	cn    *conn
}

func (t *tx) Commit() error {
	fail := t.cn.c.step("commit", "COMMIT", true)
	t.cn.inTx = false
	if fail {
		_ = t.inner.Rollback()
		return t.cn.c.fault("commit")
	}
	return t.inner.Commit()
}
func (t *tx) Rollback() error {
	t.cn.inTx = false
	return t.inner.Rollback()
}
