package fakes

import (
	"os"
	"context"
	"encoding/binary"
	"errors"
	"fmt"
	"math/big"
	"sync"
	"sync/atomic"

	"github.com/ethereum/go-ethereum"
	"github.com/ethereum/go-ethereum/common"
	"github.com/ethereum/go-ethereum/core/types"
	"github.com/ethereum/go-ethereum/crypto"
)

// Chain is the chain simulator behind the eth-client boundary: a canonical path of blocks made
// of real types.Header values (hash = Header.Hash(), fork salt and a digest of the logs in
// Extra), monotone latest >= safe >= finalized pointers, reorgs above the finalized block.
// Every RPC call first runs the schedule hook (the adversary), which may mine, move pointers,
// fork, or make the call fail, and is appended to a bounded event log for witnesses.
type Chain struct {
	mu        sync.Mutex
	canon     []*SimBlock // index = block number
	finalized uint64
	safe      uint64
	ChainIDv  uint64
	salt      uint64

	// Hook runs before every RPC (without the chain lock held). Returning an error makes the
	// call fail with it.
	Hook func(c *Chain, method string, arg any) error
	// CallHandler answers CallContract (view calls)
	CallHandler func(c *Chain, msg ethereum.CallMsg, blockNumber *big.Int) ([]byte, error)

	// stale log view: FilterLogs is answered from this chain for the next staleCalls calls
	staleView  []*SimBlock
	staleCalls int
	staleBase  uint64 // finalized pointer when the stale view was taken

	events   []string
	maxEv    int
	calls    atomic.Int64
	MaxServed atomic.Uint64 // highest block number ever served to a client (logs or explicit header)
}

// SimBlock is one block of the simulator
type SimBlock struct {
	Header *types.Header
	Logs   []types.Log
	hash   common.Hash
}

func (b *SimBlock) Hash() common.Hash { return b.hash }
func (b *SimBlock) Num() uint64       { return b.Header.Number.Uint64() }

// LogSpec is a log to be placed in a mined block
type LogSpec struct {
	Address common.Address
	Topics  []common.Hash
	Data    []byte
	TxHash  common.Hash
	Removed bool
	// SameTx: emitted by the same transaction as the previous log of the block
	SameTx bool
	// TwinOfPrev: the removed twin of the previous log of the block (same transaction hash and log
	// index, Removed, other block hash), as seen when a transaction is re-mined at the same position
	TwinOfPrev bool
}

// NewChain creates a chain with a genesis block 0
// debugQuiet drops the (very frequent) explicit-number header calls from the event log when a
// complete log is being collected for a diagnosis
var debugQuiet = os.Getenv("VERIF_DEBUG_DIR") != ""

func NewChain(chainID uint64) *Chain {
	c := &Chain{ChainIDv: chainID, salt: 1, maxEv: 600}
	if os.Getenv("VERIF_DEBUG_DIR") != "" {
		c.maxEv = 400000
	}
	c.canon = []*SimBlock{c.build(nil, 0, nil, 1_700_000_000)}
	return c
}

func (c *Chain) build(parent *SimBlock, num uint64, logs []LogSpec, ts uint64) *SimBlock {
	h := &types.Header{Number: new(big.Int).SetUint64(num), Time: ts, Difficulty: big.NewInt(0), GasLimit: 30_000_000}
	if parent != nil {
		h.ParentHash = parent.hash
	}
	extra := make([]byte, 8, 40)
	binary.BigEndian.PutUint64(extra, c.salt)
	var dig []byte
	for _, l := range logs {
		dig = append(dig, l.Address[:]...)
		for _, t := range l.Topics {
			dig = append(dig, t[:]...)
		}
		dig = append(dig, l.Data...)
	}
	if len(dig) > 0 {
		extra = append(extra, crypto.Keccak256(dig)[:24]...)
	}
	h.Extra = extra
	b := &SimBlock{Header: h, hash: h.Hash()}
	txIdx := -1
	var txHash common.Hash
	for i, l := range logs {
		if l.TwinOfPrev && i > 0 {
			tw := b.Logs[len(b.Logs)-1]
			tw.Removed = true
			tw.BlockHash = crypto.Keccak256Hash(b.hash[:], []byte("removed twin"))
			b.Logs = append(b.Logs, tw)
			continue
		}
		if !(l.SameTx && i > 0) {
			txIdx++
			txHash = l.TxHash
			if txHash == (common.Hash{}) {
				txHash = crypto.Keccak256Hash(b.hash[:], []byte{byte(i)})
			}
		}
		b.Logs = append(b.Logs, types.Log{Address: l.Address, Topics: l.Topics, Data: l.Data, BlockNumber: num,
			TxHash: txHash, TxIndex: uint(txIdx), BlockHash: b.hash, Index: uint(i), Removed: l.Removed})
	}
	return b
}

func (c *Chain) ev(format string, a ...any) {
	s := fmt.Sprintf(format, a...)
	if len(c.events) >= c.maxEv {
		c.events = c.events[1:]
	}
	c.events = append(c.events, s)
}

// Events returns the recorded event log (most recent events)
func (c *Chain) Events() []string {
	c.mu.Lock()
	defer c.mu.Unlock()
	return append([]string{}, c.events...)
}

// Note appends a harness note to the event log
func (c *Chain) Note(format string, a ...any) {
	c.mu.Lock()
	c.ev(format, a...)
	c.mu.Unlock()
}

// Calls returns the number of RPC calls served so far
func (c *Chain) Calls() int64 { return c.calls.Load() }

// LogGen produces the logs of a block that is being built on parentHash with timestamp ts
type LogGen func(num uint64, parentHash common.Hash, ts uint64) []LogSpec

// Mine appends one block with the given logs and returns it
func (c *Chain) Mine(logs []LogSpec) *SimBlock {
	c.mu.Lock()
	defer c.mu.Unlock()
	return c.mineLocked(logs)
}

// MineFn appends n blocks whose logs come from gen (called sequentially, parent hash known)
func (c *Chain) MineFn(n int, gen LogGen) []*SimBlock {
	c.mu.Lock()
	defer c.mu.Unlock()
	var out []*SimBlock
	for i := 0; i < n; i++ {
		parent := c.canon[len(c.canon)-1]
		var l []LogSpec
		if gen != nil {
			l = gen(parent.Num()+1, parent.hash, parent.Header.Time+12)
		}
		out = append(out, c.mineLocked(l))
	}
	return out
}

func (c *Chain) mineLocked(logs []LogSpec) *SimBlock {
	parent := c.canon[len(c.canon)-1]
	b := c.build(parent, parent.Num()+1, logs, parent.Header.Time+12)
	c.canon = append(c.canon, b)
	c.ev("mine %d logs=%d hash=%s", b.Num(), len(logs), b.hash.Hex()[:10])
	return b
}

// Latest returns the head number
func (c *Chain) Latest() uint64 {
	c.mu.Lock()
	defer c.mu.Unlock()
	return uint64(len(c.canon) - 1)
}

// Finalized returns the finalized pointer
func (c *Chain) Finalized() uint64 {
	c.mu.Lock()
	defer c.mu.Unlock()
	return c.finalized
}

// SetFinalized moves the finalized (and, if needed, safe) pointer forward (never backwards,
// never beyond the head)
func (c *Chain) SetFinalized(n uint64) {
	c.mu.Lock()
	defer c.mu.Unlock()
	head := uint64(len(c.canon) - 1)
	if n > head {
		n = head
	}
	if n > c.finalized {
		c.finalized = n
		c.ev("finalize %d", n)
	}
	if c.safe < c.finalized {
		c.safe = c.finalized
	}
}

// SetSafe moves the safe pointer forward
func (c *Chain) SetSafe(n uint64) {
	c.mu.Lock()
	defer c.mu.Unlock()
	head := uint64(len(c.canon) - 1)
	if n > head {
		n = head
	}
	if n > c.safe {
		c.safe = n
		c.ev("safe %d", n)
	}
}

// Fork replaces every block >= at (which must be above the finalized block) by `blocks` new
// blocks built on the new fork salt; gen gives the logs of each new block. It returns nil if at
// is not above the finalized block or beyond head+1, the new blocks otherwise.
func (c *Chain) Fork(at uint64, blocks int, gen LogGen) []*SimBlock {
	c.mu.Lock()
	defer c.mu.Unlock()
	if at <= c.finalized || at > uint64(len(c.canon)) || at == 0 {
		return nil
	}
	old := uint64(len(c.canon) - 1)
	c.canon = c.canon[:at]
	c.salt++
	if c.safe >= at {
		c.safe = at - 1
	}
	var out []*SimBlock
	for i := 0; i < blocks; i++ {
		parent := c.canon[len(c.canon)-1]
		var l []LogSpec
		if gen != nil {
			l = gen(parent.Num()+1, parent.hash, parent.Header.Time+12)
		}
		c.mineLockedNoEv(l)
		out = append(out, c.canon[len(c.canon)-1])
	}
	c.ev("fork at=%d oldHead=%d newHead=%d", at, old, len(c.canon)-1)
	if out == nil {
		out = []*SimBlock{}
	}
	return out
}

func (c *Chain) mineLockedNoEv(logs []LogSpec) {
	parent := c.canon[len(c.canon)-1]
	c.canon = append(c.canon, c.build(parent, parent.Num()+1, logs, parent.Header.Time+12))
}

// Canonical returns a snapshot of the canonical chain
func (c *Chain) Canonical() []*SimBlock {
	c.mu.Lock()
	defer c.mu.Unlock()
	return append([]*SimBlock{}, c.canon...)
}

// ServeLogsFromStaleView makes the next `calls` FilterLogs answers come from the given (older)
// canonical snapshot while headers are served from the current chain ("inconsistent backends")
func (c *Chain) ServeLogsFromStaleView(view []*SimBlock, calls int) {
	c.mu.Lock()
	c.staleView, c.staleCalls, c.staleBase = view, calls, c.finalized
	c.ev("inject stale-log-view calls=%d", calls)
	c.mu.Unlock()
}

// Client returns an eth client handle; Kill makes every later call through it fail (a dead
// incarnation of the node must not observe or influence the world any more)
func (c *Chain) Client() *ChainClient { return &ChainClient{c: c} }

// ChainClient implements aggkittypes.BaseEthereumClienter over the simulator
type ChainClient struct {
	c    *Chain
	dead atomic.Bool
}

// Kill marks the incarnation dead
func (cl *ChainClient) Kill() { cl.dead.Store(true) }

var errDead = errors.New("verif: call from a dead node incarnation")
var errUnsupported = errors.New("verif chain simulator: unsupported call")

func (cl *ChainClient) pre(ctx context.Context, method string, arg any) error {
	if cl.dead.Load() {
		return context.Canceled
	}
	if err := ctx.Err(); err != nil {
		return err
	}
	cl.c.calls.Add(1)
	if cl.c.Hook != nil {
		if err := cl.c.Hook(cl.c, method, arg); err != nil {
			cl.c.mu.Lock()
			cl.c.ev("rpc %s(%v) -> injected error %v", method, arg, err)
			cl.c.mu.Unlock()
			return err
		}
	}
	return nil
}

func (cl *ChainClient) noteServed(n uint64) {
	for {
		old := cl.c.MaxServed.Load()
		if n <= old || cl.c.MaxServed.CompareAndSwap(old, n) {
			return
		}
	}
}

// HeaderByNumber serves explicit numbers and the latest / safe / finalized tags
func (cl *ChainClient) HeaderByNumber(ctx context.Context, number *big.Int) (*types.Header, error) {
	if err := cl.pre(ctx, "HeaderByNumber", number); err != nil {
		return nil, err
	}
	c := cl.c
	c.mu.Lock()
	defer c.mu.Unlock()
	var n uint64
	tag := ""
	switch {
	case number == nil:
		n, tag = uint64(len(c.canon)-1), "latest"
	case number.Sign() < 0:
		switch number.Int64() {
		case -1, -2:
			n, tag = uint64(len(c.canon)-1), "latest"
		case -3:
			n, tag = c.finalized, "finalized"
		case -4:
			n, tag = c.safe, "safe"
		default:
			return nil, fmt.Errorf("unsupported block tag %s", number)
		}
	default:
		n = number.Uint64()
	}
	if n >= uint64(len(c.canon)) {
		c.ev("rpc HeaderByNumber(%d) -> not found", n)
		return nil, ethereum.NotFound
	}
	b := c.canon[n]
	if tag == "" {
		cl.noteServed(n)
		if !debugQuiet {
			c.ev("rpc HeaderByNumber(%d) -> %s", n, b.hash.Hex()[:10])
		}
	} else {
		c.ev("rpc HeaderByNumber(%s) -> %d", tag, n)
	}
	return types.CopyHeader(b.Header), nil
}

// FilterLogs honours the block range and the address filter; topics filters are not used by the node
func (cl *ChainClient) FilterLogs(ctx context.Context, q ethereum.FilterQuery) ([]types.Log, error) {
	if err := cl.pre(ctx, "FilterLogs", q); err != nil {
		return nil, err
	}
	c := cl.c
	c.mu.Lock()
	defer c.mu.Unlock()
	view := c.canon
	stale := false
	if c.staleCalls > 0 && c.staleView != nil {
		if c.finalized > c.staleBase {
			// finalized blocks are common to every backend: a view that forks below the current
			// finalized block is no longer served
			c.staleCalls, c.staleView = 0, nil
		} else {
			view, stale = c.staleView, true
			c.staleCalls--
		}
	}
	from, to := uint64(0), uint64(len(view)-1)
	if q.FromBlock != nil {
		from = q.FromBlock.Uint64()
	}
	if q.ToBlock != nil && q.ToBlock.Sign() >= 0 && q.ToBlock.Uint64() < to {
		to = q.ToBlock.Uint64()
	}
	var out []types.Log
	for n := from; n <= to && n < uint64(len(view)); n++ {
		for _, l := range view[n].Logs {
			if len(q.Addresses) > 0 {
				ok := false
				for _, a := range q.Addresses {
					if a == l.Address {
						ok = true
					}
				}
				if !ok {
					continue
				}
			}
			out = append(out, l)
		}
	}
	if to < uint64(len(c.canon)) {
		cl.noteServed(to)
	} else {
		cl.noteServed(uint64(len(c.canon) - 1))
	}
	c.ev("rpc FilterLogs(%d,%d)%s -> %d logs", from, to, map[bool]string{true: "[stale view]", false: ""}[stale], len(out))
	return out, nil
}

func (cl *ChainClient) BlockByNumber(ctx context.Context, number *big.Int) (*types.Block, error) {
	h, err := cl.HeaderByNumber(ctx, number)
	if err != nil {
		return nil, err
	}
	return types.NewBlockWithHeader(h), nil
}

func (cl *ChainClient) BlockNumber(ctx context.Context) (uint64, error) {
	if err := cl.pre(ctx, "BlockNumber", nil); err != nil {
		return 0, err
	}
	return cl.c.Latest(), nil
}

func (cl *ChainClient) ChainID(ctx context.Context) (*big.Int, error) {
	if cl.dead.Load() {
		return nil, context.Canceled
	}
	return new(big.Int).SetUint64(cl.c.ChainIDv), nil
}

func (cl *ChainClient) CallContract(ctx context.Context, msg ethereum.CallMsg, blockNumber *big.Int) ([]byte, error) {
	if err := cl.pre(ctx, "CallContract", msg.To); err != nil {
		return nil, err
	}
	if cl.c.CallHandler == nil {
		return nil, errUnsupported
	}
	return cl.c.CallHandler(cl.c, msg, blockNumber)
}

func (cl *ChainClient) HeaderByHash(ctx context.Context, hash common.Hash) (*types.Header, error) {
	if err := cl.pre(ctx, "HeaderByHash", hash); err != nil {
		return nil, err
	}
	c := cl.c
	c.mu.Lock()
	defer c.mu.Unlock()
	for _, b := range c.canon {
		if b.hash == hash {
			return types.CopyHeader(b.Header), nil
		}
	}
	return nil, ethereum.NotFound
}

func (cl *ChainClient) BlockByHash(ctx context.Context, hash common.Hash) (*types.Block, error) {
	h, err := cl.HeaderByHash(ctx, hash)
	if err != nil {
		return nil, err
	}
	return types.NewBlockWithHeader(h), nil
}

// ---- everything else fails loudly ----------------------------------------------------------------

func (cl *ChainClient) TransactionCount(ctx context.Context, blockHash common.Hash) (uint, error) {
	return 0, errUnsupported
}
func (cl *ChainClient) TransactionInBlock(ctx context.Context, blockHash common.Hash, index uint) (*types.Transaction, error) {
	return nil, errUnsupported
}
func (cl *ChainClient) SubscribeNewHead(ctx context.Context, ch chan<- *types.Header) (ethereum.Subscription, error) {
	return nil, errUnsupported
}
func (cl *ChainClient) CodeAt(ctx context.Context, contract common.Address, blockNumber *big.Int) ([]byte, error) {
	return []byte{1}, nil
}
func (cl *ChainClient) PendingCodeAt(ctx context.Context, account common.Address) ([]byte, error) {
	return []byte{1}, nil
}
func (cl *ChainClient) PendingNonceAt(ctx context.Context, account common.Address) (uint64, error) {
	return 0, errUnsupported
}
func (cl *ChainClient) SuggestGasPrice(ctx context.Context) (*big.Int, error) {
	return nil, errUnsupported
}
func (cl *ChainClient) SuggestGasTipCap(ctx context.Context) (*big.Int, error) {
	return nil, errUnsupported
}
func (cl *ChainClient) EstimateGas(ctx context.Context, call ethereum.CallMsg) (uint64, error) {
	return 0, errUnsupported
}
func (cl *ChainClient) SendTransaction(ctx context.Context, tx *types.Transaction) error {
	return errUnsupported
}
func (cl *ChainClient) SubscribeFilterLogs(ctx context.Context, q ethereum.FilterQuery, ch chan<- types.Log) (ethereum.Subscription, error) {
	return nil, errUnsupported
}

// SiblingView returns a copy of the canonical chain in which every block above the finalized one
// is replaced by a sibling with the same logs but a different hash: what a lagging / forked RPC
// backend would still serve for the non-finalized suffix.
func SiblingView(c *Chain, salt int) []*SimBlock {
	c.mu.Lock()
	defer c.mu.Unlock()
	view := append([]*SimBlock{}, c.canon[:c.finalized+1]...)
	save := c.salt
	c.salt = uint64(1<<40) + uint64(salt)
	for n := c.finalized + 1; n < uint64(len(c.canon)); n++ {
		var specs []LogSpec
		for j, l := range c.canon[n].Logs {
			twin := j > 0 && l.Removed && l.Index == c.canon[n].Logs[j-1].Index && l.TxHash == c.canon[n].Logs[j-1].TxHash
			specs = append(specs, LogSpec{Address: l.Address, Topics: l.Topics, Data: l.Data, TxHash: l.TxHash, Removed: l.Removed, TwinOfPrev: twin})
		}
		view = append(view, c.build(view[len(view)-1], n, specs, c.canon[n].Header.Time))
	}
	c.salt = save
	return view
}

// ForkAboveServed forks at the first height that has never been served to any client (and is
// above the finalized block): nothing the node can have processed is replaced. It returns the
// fork height and the new blocks (nil if there is no such height below head+1).
func (c *Chain) ForkAboveServed(blocks int, gen LogGen) (uint64, []*SimBlock) {
	c.mu.Lock()
	at := c.MaxServed.Load() + 1
	if at <= c.finalized {
		at = c.finalized + 1
	}
	if at > uint64(len(c.canon)) || at == 0 {
		c.mu.Unlock()
		return 0, nil
	}
	c.mu.Unlock()
	// Fork re-checks under the lock; MaxServed can only have grown, in which case we give up
	c.mu.Lock()
	if c.MaxServed.Load()+1 > at {
		c.mu.Unlock()
		return 0, nil
	}
	c.mu.Unlock()
	return at, c.forkIfUnserved(at, blocks, gen)
}

func (c *Chain) forkIfUnserved(at uint64, blocks int, gen LogGen) []*SimBlock {
	c.mu.Lock()
	defer c.mu.Unlock()
	if c.MaxServed.Load() >= at || at <= c.finalized || at > uint64(len(c.canon)) {
		return nil
	}
	old := uint64(len(c.canon) - 1)
	c.canon = c.canon[:at]
	c.salt++
	if c.safe >= at {
		c.safe = at - 1
	}
	out := []*SimBlock{}
	for i := 0; i < blocks; i++ {
		parent := c.canon[len(c.canon)-1]
		var l []LogSpec
		if gen != nil {
			l = gen(parent.Num()+1, parent.hash, parent.Header.Time+12)
		}
		c.mineLockedNoEv(l)
		out = append(out, c.canon[len(c.canon)-1])
	}
	c.ev("fork(above served) at=%d oldHead=%d newHead=%d", at, old, len(c.canon)-1)
	return out
}

