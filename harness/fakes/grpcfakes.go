// Package fakes holds the boundary fakes (the adversary): gRPC service stubs, chain simulator,
// model Agglayer, debug tracer, notifiers.
package fakes

import (
	"context"
	"errors"
	"sync"

	node "buf.build/gen/go/agglayer/agglayer/grpc/go/agglayer/node/v1/nodev1grpc"
	nodev1 "buf.build/gen/go/agglayer/agglayer/protocolbuffers/go/agglayer/node/v1"
	nodetypes "buf.build/gen/go/agglayer/agglayer/protocolbuffers/go/agglayer/node/types/v1"
	interop "buf.build/gen/go/agglayer/interop/protocolbuffers/go/agglayer/interop/types/v1"
	provergrpc "buf.build/gen/go/agglayer/provers/grpc/go/aggkit/prover/v1/proverv1grpc"
	proverv1 "buf.build/gen/go/agglayer/provers/protocolbuffers/go/aggkit/prover/v1"
	"google.golang.org/grpc"
)

// SubmissionCapture is a fake CertificateSubmissionServiceClient that records the exact request
type SubmissionCapture struct {
	mu   sync.Mutex
	Reqs []*nodev1.SubmitCertificateRequest
	ID   [32]byte
	Err  error
}

var _ node.CertificateSubmissionServiceClient = (*SubmissionCapture)(nil)

func (s *SubmissionCapture) SubmitCertificate(ctx context.Context, in *nodev1.SubmitCertificateRequest,
	opts ...grpc.CallOption) (*nodev1.SubmitCertificateResponse, error) {
	s.mu.Lock()
	defer s.mu.Unlock()
	s.Reqs = append(s.Reqs, in)
	if s.Err != nil {
		return nil, s.Err
	}
	return &nodev1.SubmitCertificateResponse{
		CertificateId: &nodetypes.CertificateId{Value: &interop.FixedBytes32{Value: s.ID[:]}},
	}, nil
}

// Last returns the last captured request
func (s *SubmissionCapture) Last() *nodev1.SubmitCertificateRequest {
	s.mu.Lock()
	defer s.mu.Unlock()
	if len(s.Reqs) == 0 {
		return nil
	}
	return s.Reqs[len(s.Reqs)-1]
}

// Reset forgets captured requests
func (s *SubmissionCapture) Reset() {
	s.mu.Lock()
	s.Reqs = nil
	s.mu.Unlock()
}

// ProverCapture is a fake AggchainProofServiceClient that records the exact request
type ProverCapture struct {
	mu   sync.Mutex
	Reqs []*proverv1.GenerateAggchainProofRequest
}

var _ provergrpc.AggchainProofServiceClient = (*ProverCapture)(nil)

func (p *ProverCapture) GenerateAggchainProof(ctx context.Context, in *proverv1.GenerateAggchainProofRequest,
	opts ...grpc.CallOption) (*proverv1.GenerateAggchainProofResponse, error) {
	p.mu.Lock()
	p.Reqs = append(p.Reqs, in)
	p.mu.Unlock()
	return &proverv1.GenerateAggchainProofResponse{
		AggchainProof: &interop.AggchainProof{
			AggchainParams: &interop.FixedBytes32{Value: make([]byte, 32)},
			Context:        map[string][]byte{},
			Proof: &interop.AggchainProof_Sp1Stark{Sp1Stark: &interop.SP1StarkProof{
				Version: "v", Proof: []byte{1}, Vkey: []byte{2},
			}},
		},
		LastProvenBlock:   in.LastProvenBlock,
		EndBlock:          in.RequestedEndBlock,
		LocalExitRootHash: &interop.FixedBytes32{Value: make([]byte, 32)},
	}, nil
}

func (p *ProverCapture) GenerateOptimisticAggchainProof(ctx context.Context,
	in *proverv1.GenerateOptimisticAggchainProofRequest,
	opts ...grpc.CallOption) (*proverv1.GenerateOptimisticAggchainProofResponse, error) {
	return nil, errors.New("not used")
}

// Last returns the last captured request
func (p *ProverCapture) Last() *proverv1.GenerateAggchainProofRequest {
	p.mu.Lock()
	defer p.mu.Unlock()
	if len(p.Reqs) == 0 {
		return nil
	}
	return p.Reqs[len(p.Reqs)-1]
}

// Reset forgets captured requests
func (p *ProverCapture) Reset() {
	p.mu.Lock()
	p.Reqs = nil
	p.mu.Unlock()
}
