package fakes

import (
	"fmt"
	"math/big"
	"reflect"

	"github.com/ethereum/go-ethereum/accounts/abi"
	"github.com/ethereum/go-ethereum/common"
)

// PackLog ABI-encodes an event into a LogSpec: indexed arguments become topics, the others data
func PackLog(a *abi.ABI, addr common.Address, event string, args ...any) LogSpec {
	ev, ok := a.Events[event]
	if !ok {
		panic("unknown event " + event)
	}
	if len(args) != len(ev.Inputs) {
		panic(fmt.Sprintf("event %s wants %d args", event, len(ev.Inputs)))
	}
	topics := []common.Hash{ev.ID}
	var nonIdx []any
	for i, in := range ev.Inputs {
		if !in.Indexed {
			nonIdx = append(nonIdx, args[i])
			continue
		}
		topics = append(topics, topicOf(args[i]))
	}
	data, err := ev.Inputs.NonIndexed().Pack(nonIdx...)
	if err != nil {
		panic(fmt.Sprintf("pack %s: %v", event, err))
	}
	return LogSpec{Address: addr, Topics: topics, Data: data}
}

func topicOf(v any) common.Hash {
	switch x := v.(type) {
	case common.Hash:
		return x
	case [32]byte:
		return x
	case common.Address:
		return common.BytesToHash(x[:])
	case *big.Int:
		return common.BigToHash(x)
	case bool:
		if x {
			return common.BigToHash(big.NewInt(1))
		}
		return common.Hash{}
	}
	rv := reflect.ValueOf(v)
	switch rv.Kind() {
	case reflect.Uint8, reflect.Uint16, reflect.Uint32, reflect.Uint64:
		return common.BigToHash(new(big.Int).SetUint64(rv.Uint()))
	}
	panic(fmt.Sprintf("unsupported indexed arg %T", v))
}
