#!/bin/bash
# usage: try_mutant.sh <patch.diff> <property> [quick|thorough]
# applies the patch to /repo, runs the check, always restores /repo afterwards
set -u
patch=$1; prop=$2; tier=${3:-quick}
cd /repo || exit 9
if ! git diff --quiet; then echo "/repo is dirty, refusing"; exit 9; fi
git apply "$patch" || { echo "patch does not apply"; exit 9; }
cd /verif; mkdir -p /tmp/x
GOFLAGS=-mod=mod GOPROXY=off ./check "$prop" "$tier" > /tmp/x/mutant.log 2>&1
rc=$?
git -C /repo checkout -- . 
echo "rc=$rc"
grep -E "^VIOLATION|^KNOWN|^SUMMARY|^INCONCL|signature=" /tmp/x/mutant.log | cut -c1-220 | head -${4:-12}
exit 0
