#!/usr/bin/env python3
"""Re-validates every seeded change under /verif/seeded against /repo's current HEAD (after later
fix: commits): in one scratch worktree (never /repo itself) the demonstration must pass without the
change, the change must apply and build, and the demonstration must fail with it. The result is
written into each meta.json as "revalidated". The full-suite check is confirm_seed.py's job.

usage: revalidate_seeds.py [seed ids...]"""
import json, os, shutil, subprocess, sys

ENV = dict(os.environ, GOFLAGS="-mod=mod", GOPROXY="off")
ENV.pop("GOTOOLCHAIN", None); ENV.pop("GOSUMDB", None)
WT = "/tmp/seedchk/reval"

def sh(cmd, cwd, timeout=1800):
    p = subprocess.run(cmd, cwd=cwd, env=ENV, shell=True, stdout=subprocess.PIPE, stderr=subprocess.STDOUT, text=True, timeout=timeout)
    return p.returncode, p.stdout

def main():
    ids = sys.argv[1:] or sorted(d for d in os.listdir("/verif/seeded") if os.path.isdir(os.path.join("/verif/seeded", d)))
    shutil.rmtree(WT, ignore_errors=True)
    os.makedirs("/tmp/seedchk", exist_ok=True)
    rc, out = sh("git -C /repo worktree prune; git -C /repo worktree add --detach %s HEAD" % WT, "/")
    if rc != 0:
        print(out); return 2
    head = sh("git -C /repo rev-parse HEAD", "/")[1].strip()
    bad = 0
    try:
        for sid in ids:
            d = os.path.join("/verif/seeded", sid)
            meta = json.load(open(os.path.join(d, "meta.json")))
            c = meta["confirmed"]
            rel, democmd = c["demo_location"], c["demo_run"]
            demo = [f for f in os.listdir(d) if f.startswith("demo")][0]
            shutil.copyfile(os.path.join(d, demo), os.path.join(WT, rel))
            res = {"head": head}
            rc, out = sh(democmd, WT)
            res["demo_without_change"] = "PASS" if rc == 0 else "FAIL"
            rc, out = sh("git apply %s" % os.path.join(d, "patch.diff"), WT)
            res["applies"] = rc == 0
            if rc == 0:
                rc, out = sh("go build ./...", WT)
                res["builds"] = rc == 0
                rc, out = sh(democmd, WT)
                res["demo_with_change"] = "FAIL" if rc != 0 else "PASS"
            ok = res["demo_without_change"] == "PASS" and res.get("applies") and res.get("builds") and res.get("demo_with_change") == "FAIL"
            res["ok"] = bool(ok)
            meta["revalidated"] = res
            json.dump(meta, open(os.path.join(d, "meta.json"), "w"), indent=1)
            print(sid, "OK" if ok else "PROBLEM", res, flush=True)
            bad += 0 if ok else 1
            sh("git checkout -- . && git clean -fdq", WT)
    finally:
        sh("git -C /repo worktree remove --force %s; git -C /repo worktree prune" % WT, "/")
        shutil.rmtree(WT, ignore_errors=True)
    return 1 if bad else 0

if __name__ == "__main__":
    sys.exit(main())
