#!/usr/bin/env python3
"""Runs every seeded change under /verif/seeded against the quick check of its own property (and
optionally other properties) and writes /verif/seeded/RESULTS.json + RESULTS.md.

The change is applied to /repo only for the duration of one check (git apply ... git checkout -- .);
/repo is always restored, also when interrupted.

usage: run_matrix.py [--tier quick|thorough] [--also C07,C14] [seed ids...]"""
import json, os, re, subprocess, sys, time

ENV = dict(os.environ, GOFLAGS="-mod=mod", GOPROXY="off")
ENV.pop("GOTOOLCHAIN", None); ENV.pop("GOSUMDB", None)

def sh(cmd, cwd="/verif", timeout=7200):
    p = subprocess.run(cmd, cwd=cwd, env=ENV, shell=True, stdout=subprocess.PIPE, stderr=subprocess.STDOUT, text=True, timeout=timeout)
    return p.returncode, p.stdout

def main():
    args = sys.argv[1:]
    tier = "quick"; also = []
    if "--tier" in args:
        i = args.index("--tier"); tier = args[i+1]; del args[i:i+2]
    if "--also" in args:
        i = args.index("--also"); also = args[i+1].split(","); del args[i:i+2]
    ids = args or sorted(d for d in os.listdir("/verif/seeded") if os.path.isdir(os.path.join("/verif/seeded", d)))
    rc, out = sh("git status --porcelain", "/repo")
    if out.strip():
        print("/repo is not clean:\n" + out); return 2
    res_path = "/verif/seeded/RESULTS.json"
    results = json.load(open(res_path)) if os.path.exists(res_path) else {}
    head = sh("git rev-parse HEAD", "/repo")[1].strip()
    try:
        for sid in ids:
            d = os.path.join("/verif/seeded", sid)
            prop = sid.split("-")[0]
            rc, out = sh("git apply %s/patch.diff" % d, "/repo")
            if rc != 0:
                results[sid] = {"head": head, "error": "patch does not apply"}
                print(sid, "PATCH DOES NOT APPLY"); continue
            entry = {"head": head, "tier": tier, "checks": {}}
            try:
                for p in [prop] + [a for a in also if a != prop]:
                    t0 = time.time()
                    rc, out = sh("./check %s %s" % (p, tier))
                    sigs = sorted(set(re.findall(r"signature=(\S+)", out)))
                    entry["checks"][p] = {"exit": rc, "caught": rc == 1, "signatures": sigs[:8], "wall_s": round(time.time() - t0, 1)}
                    print(sid, p, "exit", rc, sigs[:3], flush=True)
            finally:
                sh("git checkout -- .", "/repo")
            results[sid] = entry
            json.dump(results, open(res_path, "w"), indent=1, sort_keys=True)
    finally:
        sh("git checkout -- .", "/repo")
    # markdown summary
    lines = ["| seed | title | own check | signatures (first) | also caught by |", "|---|---|---|---|---|"]
    for sid in sorted(results):
        e = results[sid]
        meta = json.load(open(os.path.join("/verif/seeded", sid, "meta.json")))
        prop = sid.split("-")[0]
        own = e.get("checks", {}).get(prop, {})
        others = [p for p, c in e.get("checks", {}).items() if p != prop and c.get("caught")]
        lines.append("| %s | %s | %s | %s | %s |" % (sid, (meta.get("title") or "")[:90], "caught" if own.get("caught") else ("MISSED (exit %s)" % own.get("exit")), ", ".join(own.get("signatures", [])[:2]), ", ".join(others)))
    open("/verif/seeded/RESULTS.md", "w").write("\n".join(lines) + "\n")
    return 0

if __name__ == "__main__":
    sys.exit(main())
