#!/usr/bin/env python3
"""Validates MANIFEST.json and every evidence file against the schemas in /root/.vp and repeats
the consistency checks `vp check` makes (level = MANIFEST level category, >= 1 sample)."""
import json, sys, os
import jsonschema
m = json.load(open('/verif/MANIFEST.json'))
jsonschema.validate(m, json.load(open('/root/.vp/MANIFEST.schema.json')))
es = json.load(open('/root/.vp/EVIDENCE.schema.json'))
bad = 0
for c in m['checks']:
    p = c['evidence_file']
    if not os.path.exists(p):
        print('MISSING', p); bad += 1; continue
    e = json.load(open(p))
    try:
        jsonschema.validate(e, es)
    except jsonschema.ValidationError as x:
        print('INVALID', p, x.message[:200]); bad += 1; continue
    if e.get('level') != c['level_claimed']['category']:
        print('LEVEL MISMATCH', p, e.get('level'), c['level_claimed']['category']); bad += 1
    if len(e.get('coverage', {}).get('samples', [])) < 1:
        print('NO SAMPLES', p); bad += 1
    if e.get('property_id') != c['property_id']:
        print('WRONG ID', p); bad += 1
print('checked', len(m['checks']), 'bad', bad)
sys.exit(1 if bad else 0)
