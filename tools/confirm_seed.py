#!/usr/bin/env python3
"""Confirms a seeded change produced by a sub-agent, in a scratch worktree of /repo (never in
/repo itself), and files it under /verif/seeded/<id>/ when everything holds:

  * the demonstration passes WITHOUT the change,
  * the change applies to /repo's HEAD and `go build ./...` succeeds,
  * the demonstration FAILS with the change,
  * the repository's existing suite (hooks off), unedited, still passes with the change
    (the two docker-needing bridgesync tests fail in the baseline and are ignored; a failing
    package is re-run once because l1infotreesync's reorg tests are timing sensitive under load).

usage: confirm_seed.py <src dir with patch.diff demo* meta.json> <seed id, e.g. C17-A>
"""
import json
import os
import re
import shutil
import subprocess
import sys

ENV = dict(os.environ, GOFLAGS="-mod=mod", GOPROXY="off")
ENV.pop("GOTOOLCHAIN", None)
ENV.pop("GOSUMDB", None)
BASELINE_FAIL = {"TestBridgeCallData", "TestClaimCalldata"}


def sh(cmd, cwd, timeout=3000):
    p = subprocess.run(cmd, cwd=cwd, env=ENV, shell=True, stdout=subprocess.PIPE, stderr=subprocess.STDOUT, text=True, timeout=timeout)
    return p.returncode, p.stdout


def main():
    src, sid = sys.argv[1], sys.argv[2]
    meta = json.load(open(os.path.join(src, "meta.json")))
    demo = [f for f in os.listdir(src) if f.startswith("demo")][0]
    demo_src = os.path.join(src, demo)
    if os.path.isdir(demo_src):
        print("demo is a directory, handle by hand")
        return 2
    head = open(demo_src).read(1500)
    m = re.search(r"[Pp]lace[^\n]*?\bat:?\s+(\S+\.go)", head)
    if not m:
        print("cannot find the demo location in its first lines")
        return 2
    rel = m.group(1)
    cmd = meta.get("demo_cmd", "")
    m2 = re.search(r"-run\s+'?\"?([^\s'\"]+)'?\"?\s+(\./\S+)", cmd) or re.search(r"-run\s+'?\"?([^\s'\"]+)'?\"?\s+(\./\S+)", head)
    if not m2:
        print("cannot find the demo run command")
        return 2
    run, pkg = m2.group(1), m2.group(2)
    tags = "-tags verif " if ("-tags verif" in cmd or "-tags verif" in head) else ""
    wt = "/tmp/seedchk/" + sid
    shutil.rmtree(wt, ignore_errors=True)
    os.makedirs("/tmp/seedchk", exist_ok=True)
    rc, out = sh("git -C /repo worktree prune; git -C /repo worktree add --detach %s HEAD" % wt, "/")
    if rc != 0:
        print(out)
        return 2
    result = {"seed": sid, "demo_location": rel, "demo_run": "go test %s-vet=off -count=1 -run '%s' %s" % (tags, run, pkg)}
    try:
        shutil.copyfile(demo_src, os.path.join(wt, rel))
        democmd = "go test %s-vet=off -count=1 -run '%s' %s" % (tags, run, pkg)
        rc, out = sh(democmd, wt)
        result["demo_without_change"] = "PASS" if rc == 0 else "FAIL"
        if rc != 0:
            print("demo does not pass without the change:\n" + out[-3000:])
            return 1
        rc, out = sh("git apply %s" % os.path.join(os.path.abspath(src), "patch.diff"), wt)
        if rc != 0:
            print("patch does not apply: " + out)
            return 1
        rc, out = sh("go build ./...", wt)
        if rc != 0:
            print("does not build with the change:\n" + out[-3000:])
            return 1
        rc, out = sh(democmd, wt)
        result["demo_with_change"] = "FAIL" if rc != 0 else "PASS"
        if rc == 0:
            print("demo does not fail with the change")
            return 1
        result["demo_failure_excerpt"] = "\n".join([l for l in out.splitlines() if "FAIL" in l or "Error" in l or "expected" in l][:8])
        os.remove(os.path.join(wt, rel))
        rc, out = sh("go test -vet=off -count=1 -timeout 25m ./... 2>&1", wt, timeout=3600)
        failed_tests = set(re.findall(r"^--- FAIL: (\S+)", out, re.M))
        failed_pkgs = set(re.findall(r"^FAIL\s+(github.com/agglayer/aggkit/\S+)", out, re.M))
        unexpected = failed_tests - BASELINE_FAIL
        if unexpected or (failed_pkgs - {"github.com/agglayer/aggkit/bridgesync"}):
            # re-run the failing packages once (timing-sensitive tests under load)
            still = set()
            for p in failed_pkgs:
                rel_p = "./" + p.split("github.com/agglayer/aggkit/")[1]
                rc2, out2 = sh("go test -vet=off -count=1 -timeout 25m %s 2>&1" % rel_p, wt, timeout=3600)
                for _ in range(3):
                    # TestStartProfilingHttpServer binds a fixed port: parallel confirmations clash
                    if set(re.findall(r"^--- FAIL: (\S+)", out2, re.M)) != {"TestStartProfilingHttpServer"}:
                        break
                    import random, time
                    time.sleep(random.uniform(3, 40))
                    rc2, out2 = sh("go test -vet=off -count=1 -timeout 25m %s 2>&1" % rel_p, wt, timeout=3600)
                still |= set(re.findall(r"^--- FAIL: (\S+)", out2, re.M))
                if rc2 != 0 and not re.findall(r"^--- FAIL: (\S+)", out2, re.M):
                    still.add("PKGFAIL:" + p)
            unexpected = still - BASELINE_FAIL
            result["suite_rerun_of_failed_packages"] = sorted(failed_pkgs)
        result["suite_unexpected_failures"] = sorted(unexpected)
        result["suite_packages_ok"] = len(re.findall(r"^ok\s", out, re.M))
        if unexpected:
            print("existing suite fails with the change: %s" % sorted(unexpected))
            return 1
        dst = os.path.join("/verif/seeded", sid)
        os.makedirs(dst, exist_ok=True)
        shutil.copyfile(os.path.join(src, "patch.diff"), os.path.join(dst, "patch.diff"))
        shutil.copyfile(demo_src, os.path.join(dst, demo))
        meta_out = {
            "property": meta.get("property", sid.split("-")[0]),
            "title": meta.get("title"),
            "files": meta.get("files"),
            "what_it_breaks": meta.get("what_it_breaks"),
            "needs_to_manifest": meta.get("needs_to_manifest"),
            "source": "independent sub-agent given only the property text and a scratch worktree",
            "confirmed": result,
            "what_i_ran": [
                "scratch worktree of /repo HEAD under /tmp/seedchk (removed afterwards)",
                "demo without the change: " + democmd + " -> PASS",
                "git apply patch.diff; go build ./... -> ok",
                "demo with the change -> FAIL",
                "go test -vet=off -count=1 -timeout 25m ./... (hooks off) -> only the 2 baseline docker tests fail",
            ],
        }
        json.dump(meta_out, open(os.path.join(dst, "meta.json"), "w"), indent=1)
        print("CONFIRMED %s -> %s" % (sid, dst))
        return 0
    finally:
        sh("git -C /repo worktree remove --force %s; git -C /repo worktree prune" % wt, "/")
        shutil.rmtree(wt, ignore_errors=True)


if __name__ == "__main__":
    sys.exit(main())
